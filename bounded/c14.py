"""C14 bounded stand-in: tree binarization and unary-chain collapsing are reversible normal forms.

Witness for binarize clauses: {"spec": spec with x.head flags on the children, "bare": bool}
(head marks are part of the input: property C15 judges the markers; here every head position is
enumerated directly).  Witness for the chain clauses: a tree spec.

Clauses
  binarize_arity        after binarize every node has at most two children
  binarize_added        the nodes added are exactly the '@'-labelled ones; each carries '@' + the category
                        of the constituent it binarizes without co-index ('@' alone with bare_bin_labels)
  unbinarize_restores   splicing the children of the added nodes into their parents restores exactly
                        the original tree (labels, edges, tokens, dominance)
  binarize_rejects      a node with more than two children and no head mark anywhere -> ValueError
  collapse_normal_form  after collapse_unary_chains no node has exactly one child and the result equals
                        the reference (labels of a chain joined top-down with '+')
  uncollapse_roundtrip  uncollapse_unary_chains(collapse_unary_chains(t)) returns the ROOT of a tree
                        with the original labels, words and structure
"""
import copy
import itertools

from vlib import tg
from bounded.common import Skip
from bounded import lib_transform as L

RULE = ("binarize: all tree shapes with n<=N tokens x every head position of every constituent "
        "(head first / last / middle, discontinuous constituents included), flat constituents of "
        "arity 1..K with every head position, labels with co-index / function tags, both values of "
        "bare_bin_labels; seeded random trees with unary nodes.  chains: unary chains of length "
        "1..4 at the root, in the middle, above tokens and all three at once over every shape with "
        "n<=M tokens, one-token sentences, seeded random trees with unary wrappers.  Labels without "
        "'+' and not starting with '@'.  Non-trivial = distinct tree with a node of arity > 2 "
        "(binarize) / with a unary node (chains)")


def BOUNDS(ctx):
    return {"binarize_shapes_n": 5 if ctx.quick else 6, "flat_arity_max": 7 if ctx.quick else 9,
            "chain_shapes_n": 4 if ctx.quick else 5, "chain_len_max": 4,
            "random_trees": 200 if ctx.quick else 4000, "random_max_n": 10}


SITES = {
    "binarize_arity": "trees.transform.binarize",
    "binarize_added": "trees.transform.binarize",
    "unbinarize_restores": "trees.transform.binarize",
    "binarize_rejects": "trees.transform.binarize",
    "collapse_normal_form": "trees.transform.collapse_unary_chains",
    "uncollapse_roundtrip": "trees.transform.uncollapse_unary_chains",
}


# ----------------------------------------------------------------------------
# binarize
# ----------------------------------------------------------------------------
def _binarize(ctx, w):
    trees, tr = ctx.mod("trees"), ctx.mod("transform")
    spec = L.uidify(w["spec"])
    t = tg.build(spec, trees)
    params = {"bare_bin_labels": True} if w.get("bare") else {}
    try:
        r = tr.binarize(t, **params)
    except Exception as e:
        return spec, None, ("binarize returns the tree", "raised %s: %s" % (type(e).__name__, e))
    if r is not t:
        return spec, None, ("returns the root that was passed in", "another node")
    errs = tg.wf_errors(r, expect_n=len(L.tokens(spec)))
    if errs:
        return spec, None, ("a well-formed tree", {"wf_errors": errs[:4]})
    return spec, L.real_spec(r), None


def _added(s):
    return L.xget(s, "uid") is None


def c_binarize_arity(ctx, w):
    spec, post, bad = _binarize(ctx, w)
    if bad:
        return bad
    for c in L.constituents(post):
        if len(c["c"]) > 2:
            return ("every node has at most two children", "%s has %d in %s" % (c["l"], len(c["c"]), L.show(post)))
    return None


def c_binarize_added(ctx, w):
    spec, post, bad = _binarize(ctx, w)
    if bad:
        return bad
    orig_uids = sorted(L.xget(s, "uid") for s, _ in L.all_specs(spec))
    post_uids = sorted(L.xget(s, "uid") for s, _ in L.all_specs(post) if not _added(s))
    if orig_uids != post_uids:
        return ("every original node exactly once", "uids %s" % post_uids)

    def rec(s, owner):
        """owner = nearest original constituent above"""
        if L.is_leaf(s):
            if _added(s):
                return ("no token added", L.show(s))
            return None
        if _added(s):
            want = "@" if w.get("bare") else "@" + L.strip_coindex(owner["l"])
            if s["l"] != want:
                return ("added node below %s labelled %r" % (owner["l"], want), s["l"])
        else:
            if s["l"].startswith("@"):
                return ("original node keeps its label", s["l"])
            owner = s
        for c in s["c"]:
            r = rec(c, owner)
            if r:
                return r
        return None
    if _added(post):
        return ("the root is an original node", post["l"])
    return rec(post, post)


def c_unbinarize_restores(ctx, w):
    spec, post, bad = _binarize(ctx, w)
    if bad:
        return bad
    back = L.ref_unbinarize(post, lambda s: s["l"].startswith("@"))
    if L.canon(back) != L.canon(spec):
        return ({"tree": L.show(spec)}, {"tree": L.show(back), "binarized": L.show(post)})
    return None


def c_binarize_rejects(ctx, w):
    """no head mark anywhere and some node with > 2 children: ValueError"""
    trees, tr = ctx.mod("trees"), ctx.mod("transform")
    spec = w["spec"]
    if L.max_arity(spec) <= 2 or any("head" in s.get("x", {}) for s, _ in L.all_specs(spec)):
        raise Skip()
    t = tg.build(spec, trees)
    params = {"bare_bin_labels": True} if w.get("bare") else {}
    try:
        tr.binarize(t, **params)
    except ValueError:
        return None
    except Exception as e:
        return ("ValueError", "raised %s: %s" % (type(e).__name__, e))
    return ("ValueError (heads not marked)", "returned %s" % L.show(L.real_spec(t)))


# ----------------------------------------------------------------------------
# unary chains
# ----------------------------------------------------------------------------
def _collapse(ctx, spec):
    trees, tr = ctx.mod("trees"), ctx.mod("transform")
    t = tg.build(spec, trees)
    try:
        r = tr.collapse_unary_chains(t)
    except Exception as e:
        return None, ("collapse_unary_chains returns the tree", "raised %s: %s" % (type(e).__name__, e))
    if r is not t:
        return None, ("returns the root that was passed in", "another node")
    errs = tg.wf_errors(r, expect_n=len(L.tokens(spec)))
    if errs:
        return None, ("a well-formed tree", {"wf_errors": errs[:4]})
    return r, None


def c_collapse_normal_form(ctx, spec):
    r, bad = _collapse(ctx, spec)
    if bad:
        return bad
    post = L.real_spec(r)
    for c in L.constituents(post):
        if len(c["c"]) == 1:
            return ("no unary node", "%s in %s" % (c["l"], L.show(post)))
    exp = L.ref_collapse(spec)
    if L.canon_structure(post) != L.canon_structure(exp):
        return ({"tree": L.show(exp)}, {"tree": L.show(post)})
    return None


def c_uncollapse_roundtrip(ctx, spec):
    tr = ctx.mod("transform")
    r, bad = _collapse(ctx, spec)
    if bad:
        raise Skip()      # judged by collapse_normal_form
    if L.canon_structure(L.real_spec(r)) != L.canon_structure(L.ref_collapse(spec)):
        raise Skip()
    try:
        u = tr.uncollapse_unary_chains(r)
    except Exception as e:
        return ("uncollapse_unary_chains returns the tree", "raised %s: %s" % (type(e).__name__, e))
    if u is None:
        return ("returns the root", "None")
    if u.parent is not None:
        top = u
        while top.parent is not None:
            top = top.parent
        return ("returns the ROOT of the uncollapsed tree (%s)" % top.data.get("label"),
                {"returned_inner_node": u.data.get("label"),
                 "whole_tree_restored": L.canon_structure(L.real_spec(top)) == L.canon_structure(spec)
                 and not tg.wf_errors(top)})
    errs = tg.wf_errors(u, expect_n=len(L.tokens(spec)))
    if errs:
        return ("a well-formed tree", {"wf_errors": errs[:4]})
    post = L.real_spec(u)
    if L.canon_structure(post) != L.canon_structure(spec):
        return ({"tree": L.show(spec)}, {"tree": L.show(post)})
    return None


CLAUSES = {"binarize_arity": c_binarize_arity, "binarize_added": c_binarize_added,
           "unbinarize_restores": c_unbinarize_restores, "binarize_rejects": c_binarize_rejects,
           "collapse_normal_form": c_collapse_normal_form, "uncollapse_roundtrip": c_uncollapse_roundtrip}

BIN_CLAUSES = ["binarize_arity", "binarize_added", "unbinarize_restores"]
CHAIN_CLAUSES = ["collapse_normal_form", "uncollapse_roundtrip"]


# ----------------------------------------------------------------------------
# generation
# ----------------------------------------------------------------------------
BIN_LABELS = ["S", "NP", "VP-1", "NP-SBJ", "NP-SBJ-12", "PP=2", "S-3"]


def _set_heads(spec, choice):
    """x.head on every non-root node: the chosen child (token order) of each constituent True"""
    spec = copy.deepcopy(spec)
    for c, h in zip(L.constituents(spec), choice):
        kids = sorted(c["c"], key=L.minleaf)
        for i, k in enumerate(kids):
            k.setdefault("x", {})["head"] = (i == h)
    spec.setdefault("x", {})["head"] = False
    return spec


def _label_spec(shape, rng, labels, shuffle, unary_p=0.0):
    def wrap(sp):
        while rng.random() < unary_p:
            sp = tg.node_spec(rng.choice(labels), [sp], rng.choice(L.EDGES))
        return sp

    def build(sh):
        if isinstance(sh, int):
            return wrap(tg.leaf_spec(sh, rng.choice(L.WORDS_PLAIN + [",", "("]), rng.choice(L.POS_PLAIN),
                                     rng.choice(L.EDGES)))
        kids = [build(c) for c in sh]
        if shuffle:
            rng.shuffle(kids)
        return wrap(tg.node_spec(rng.choice(labels), kids, rng.choice(L.EDGES)))
    kids = [build(shape)] if isinstance(shape, int) else [build(c) for c in shape]
    if shuffle:
        rng.shuffle(kids)
    top = tg.node_spec("VROOT", kids)
    top["sid"] = 1
    return top


def _head_choices(spec, rng, cap):
    cons = L.constituents(spec)
    total = 1
    for c in cons:
        total *= len(c["c"])
    if total <= cap:
        for ch in itertools.product(*[range(len(c["c"])) for c in cons]):
            yield list(ch)
    else:
        for _ in range(cap):
            yield [rng.randrange(len(c["c"])) for c in cons]


def _chain(labels, inner):
    for l in reversed(labels):
        inner = tg.node_spec(l, [inner])
    return inner


def chain_specs(shape, rng, maxlen):
    """unary chains of every length at the root / in the middle / above tokens / everywhere"""
    labs = ["A", "B", "C", "D"]
    base = _label_spec(shape, rng, ["S", "NP", "VP"], shuffle=False)

    def with_chains(k, where):
        s = copy.deepcopy(base)

        def rec(t, depth):
            if L.is_leaf(t):
                return _chain(labs[:k], t) if where in ("tokens", "all") else t
            t["c"] = [rec(c, depth + 1) for c in t["c"]]
            if depth > 0 and where in ("middle", "all"):
                return _chain(labs[:k], t)
            return t
        s = rec(s, 0)
        if where in ("root", "all"):
            # k unary nodes directly below the root (the last one holds the root's children):
            # the root heads a chain of k+1 labels
            s["c"] = [_chain(labs[:k - 1], tg.node_spec(labs[k - 1], s["c"]))]
        s["sid"] = 1
        return s
    yield base
    for k in range(1, maxlen + 1):
        for where in ("root", "middle", "tokens", "all"):
            yield with_chains(k, where)


def _nt_bin(spec):
    return tg.spec_str(spec) + repr([L.xget(s, "head") for s, _ in L.all_specs(spec)]) \
        if L.max_arity(spec) > 2 else None


def _nt_chain(spec):
    return tg.spec_str(spec) if any(len(c["c"]) == 1 for c in L.constituents(spec)) else None


def generate(ctx):
    b = BOUNDS(ctx)
    rng = ctx.rng
    # --- binarize: flat constituents of every arity, every head position
    for k in range(1, b["flat_arity_max"] + 1):
        for lab in BIN_LABELS[:4] if k > 4 else BIN_LABELS:
            flat = tg.node_spec("VROOT", [tg.node_spec(lab, [tg.leaf_spec(i, "w%d" % i) for i in range(1, k + 1)])])
            flat["sid"] = 1
            for h in range(k):
                spec = _set_heads(flat, [0, h])
                for bare in (False, True):
                    for cl in BIN_CLAUSES:
                        yield cl, {"spec": spec, "bare": bare}, _nt_bin(spec)
            yield "binarize_rejects", {"spec": flat, "bare": False}, tg.spec_str(flat) if k > 2 else None
    # --- binarize: all shapes x head positions
    for n in range(1, b["binarize_shapes_n"] + 1):
        for sh in tg.shapes(n):
            base = _label_spec(sh, rng, BIN_LABELS, shuffle=bool(rng.random() < 0.5))
            bare = rng.random() < 0.5
            for ch in _head_choices(base, rng, 12 if ctx.quick else 40):
                spec = _set_heads(base, ch)
                for cl in BIN_CLAUSES:
                    yield cl, {"spec": spec, "bare": bare}, _nt_bin(spec)
            yield "binarize_rejects", {"spec": base, "bare": bare}, tg.spec_str(base) if L.max_arity(base) > 2 else None
    # --- chains
    for n in range(1, b["chain_shapes_n"] + 1):
        for sh in tg.shapes(n):
            for spec in chain_specs(sh, rng, b["chain_len_max"]):
                for cl in CHAIN_CLAUSES:
                    yield cl, spec, _nt_chain(spec)
    # --- random
    for _ in range(b["random_trees"]):
        n = rng.randint(1, b["random_max_n"])
        sh = tg.random_shape(rng, n, p_flat=0.55, discont=0.4)
        spec = _label_spec(sh, rng, BIN_LABELS, shuffle=True, unary_p=0.3)
        for cl in CHAIN_CLAUSES:
            yield cl, spec, _nt_chain(spec)
        hs = _set_heads(spec, [rng.randrange(len(c["c"])) for c in L.constituents(spec)])
        for cl in BIN_CLAUSES:
            yield cl, {"spec": hs, "bare": rng.random() < 0.5}, _nt_bin(hs)
        yield "binarize_rejects", {"spec": spec, "bare": False}, tg.spec_str(spec) if L.max_arity(spec) > 2 else None


def classify(clause, witness, expected, observed):
    if clause == "uncollapse_roundtrip" and isinstance(observed, dict) and "returned_inner_node" in observed:
        if observed.get("whole_tree_restored"):
            return "returns-inner-node-of-root-chain"
        return "returns-inner-node-and-tree-differs"
    return None


def exhaustive(ctx):
    return False
