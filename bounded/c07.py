"""C07 bounded stand-in: binarization preserves every rule's yield function.

Inputs: (1) every ordered, non-deleting, non-erasing LCFRS rule in canonical
form with rank <= R and <= V variables (lib_grammar.enum_lins), alone and in
batches (one grammar of many rules, so that label generation is exercised
across rules); (2) the grammars of random treebanks (computed from the specs
by the reference extractor, not by grammar.extract).

Oracle: `compose` (DESIGN 5/C07).  Without Markovization the rule rewriting a
binarization symbol is unique and compose is a function; with Markovization
labels are shared on purpose, and the property asks for the *existence* of a
chain: lib_grammar.find_chain searches it, demanding at every step that the
symbol is used with the fan-out its defining rule has.  "Up to the reordering
applied" is judged without calling the reordering function: two rules are the
same up to RHS permutation iff their canonical forms (RHS ordered by first
variable) are equal; for reordering_none equality must be literal.
"""
from vlib import tg
from bounded.common import Skip
from bounded import lib_grammar as L

RULE = ("every canonical LCFRS rule with rank<=R, <=V variables, x {reordering_none, reordering_optimal} x "
        "{deterministic, Markov v,h in 0..3, with/without nofanout}: deterministic for every rule, Markov "
        "configurations dealt round-robin over the rules (K per rule and reordering; every configuration meets "
        "every rank / fan-out pattern); RHS labels distinct, all equal, or equal to the LHS; the same rules "
        "in batches of B as one grammar; grammars of random treebanks x every configuration.  "
        "Non-trivial = rank >= 3 (a chain of >= 2 rules), key = rule + configuration")


def BOUNDS(ctx):
    if ctx.quick:
        return {"R": 4, "V": 6, "markov_per_rule": 5, "batch": 24, "batch_markov": 2, "batch_every": 1, "full_markov_every": 97,
                "random_treebanks": 25, "random_max_n": 10, "treebank_configs": "covering(20)"}
    return {"R": 5, "V": 8, "markov_per_rule": 1, "batch": 40, "batch_markov": 2, "batch_every": 8, "full_markov_every": 499,
            "random_treebanks": 150, "random_max_n": 14, "treebank_configs": "all(32)"}


SITES = {
    "chain": "trees.grammar.binarize_rule",
    "chain_in_grammar": "trees.grammar.binarize",
    "binary": "trees.grammar.binarize",
    "small_kept": "trees.grammar.binarize_rule",
    "labels_unique": "trees.grammar.LabelGenerator.next",
    "unbinarize": "trees.grammar.binarize",
    "fan_out_vector": "trees.grammaranalysis.fan_out",
    "reordering": "trees.grammar.reordering_optimal",
    "linsub_well_numbered": "trees.grammar.linsub",
}

# ---------------------------------------------------------------------------
# witnesses
#   single rule : {"func": [...], "lin": [[[i,k],..],..], "reordering": "none"|"optimal"|"absent",
#                  "markov": null | {"v":..,"h":..,"nofanout":bool}}
#   grammar     : {"rules": [[func, lin, [[vert, count], ...]], ...]  or  "specs": [tree specs],
#                  "reordering": ..., "markov": ...}
# ---------------------------------------------------------------------------


def _verts(func, lin):
    k = len(lin)
    return {("%s%d" % (func[0], k), "P1", "Q2"): 2, ("%s%d" % (func[0], k), "R1"): 1}


def _grammar(w):
    if "specs" in w:
        g, _ = L.ref_extract(w["specs"])
        return g
    if "rules" in w:
        return L.rules_from_json(w["rules"])
    func, lin = tuple(w["func"]), L.lin_from_json(w["lin"])
    return {func: {lin: _verts(func, lin)}}


def _in_domain(g):
    for f in g:
        if any(L.is_bin(x) for x in f):
            raise Skip()
        for l in g[f]:
            if not L.is_canonical(l) or L.lin_rank(l) != len(f) - 1:
                raise Skip()


def _binarize(ctx, w, g):
    gr = ctx.mod("grammar")
    args = {}
    if w["reordering"] == "none":
        args["reordering"] = gr.reordering_none
    elif w["reordering"] == "optimal":
        args["reordering"] = gr.reordering_optimal
    if w.get("markov") is not None:
        args["markov_opts"] = L.markov_opts(w["markov"])
    return gr.binarize(g, **args)


def _exact(w):
    return w["reordering"] != "optimal"


def c_binary(ctx, w):
    g = _grammar(w)
    _in_domain(g)
    bg = _binarize(ctx, w, g)
    bad = [L.rule_str(f) for f in bg if not (2 <= len(f) <= 3)]
    if bad:
        return ("every rule has 1 or 2 right-hand-side elements", bad[:5])
    for f in bg:
        for l in bg[f]:
            try:
                L.check_lin_shape(l)
            except L.LinError as e:
                return ("well-shaped linearizations", str(e))
            if L.lin_rank(l) != len(f) - 1 or not L.well_numbered(l):
                return ("linearization of %s mentions exactly its RHS elements, arguments numbered 0,1,.. in order"
                        % L.rule_str(f), L.lin_str(l))
    return None


def _chain_check(ctx, w, g):
    bg = _binarize(ctx, w, g)
    idx = L.index_by_lhs(bg)
    markov = w.get("markov") is not None
    composed = None
    for f in g:
        for l in g[f]:
            if markov:
                chain = L.find_chain_any(bg, f, l, _exact(w), idx)
                if chain is None:
                    return ("a chain of binarized rules composing to %s%s, fan-outs of intermediate symbols agreeing"
                            % (L.rule_str(f, l), "" if _exact(w) else " up to RHS order"),
                            {"rules_rewriting_lhs": [L.rule_str(a, b) for a, b in idx.get(f[0], [])][:8],
                             "binarized": L.show(L.flat(bg)) if len(g) == 1 else "(%d rules)" % len(L.flat(bg))})
                if len(chain) != max(1, len(f) - 2):
                    return ("chain of %d rules for rank %d" % (max(1, len(f) - 2), len(f) - 1), len(chain))
            else:
                if composed is None:
                    composed, errs = {}, []
                    for (a, b) in L.flat(bg):
                        if L.is_bin(a[0]):
                            continue
                        try:
                            cf, cl, n = L.compose_unique(bg, a, b, idx)
                            key = (cf, cl) if _exact(w) else L.canon_rule(cf, cl)
                        except L.LinError as e:
                            errs.append("%s: %s" % (L.rule_str(a, b), e))
                            continue
                        composed.setdefault(key, []).append(n)
                ns = composed.get((f, l), [])
                if len(ns) != 1:
                    return ("exactly one chain composing to %s%s" % (
                        L.rule_str(f, l), "" if _exact(w) else " up to RHS order"),
                        {"chains_found": len(ns), "compose_errors": errs[:4],
                         "binarized": L.show(L.flat(bg)) if len(g) == 1 else "(%d rules)" % len(L.flat(bg))})
                if ns[0] != max(1, len(f) - 2):
                    return ("chain of %d rules for rank %d" % (max(1, len(f) - 2), len(f) - 1), ns[0])
    return None


def c_chain(ctx, w):
    g = _grammar(w)
    _in_domain(g)
    return _chain_check(ctx, w, g)


def c_chain_in_grammar(ctx, w):
    g = _grammar(w)
    _in_domain(g)
    return _chain_check(ctx, w, g)


def c_small_kept(ctx, w):
    """rules with at most two RHS elements are kept as they are"""
    g = _grammar(w)
    _in_domain(g)
    small = {(f, l) for f in g for l in g[f] if len(f) <= 3}
    if not small:
        raise Skip()
    bg = _binarize(ctx, w, g)
    got = set(L.flat(bg))
    if w["reordering"] == "optimal":
        # the reordering function is an input of binarize; what binarization itself
        # must not do is touch the rule: same rule up to the RHS order chosen
        try:
            gotc = {L.canon_rule(f, l) for (f, l) in got if not any(L.is_bin(x) for x in f)}
        except L.LinError as e:
            return ("well-formed rules", str(e))
        miss = small - gotc
    else:
        miss = small - got
    if miss:
        return ("kept as they are: %s" % sorted(L.rule_str(f, l) for f, l in miss)[:4],
                sorted(L.rule_str(f, l) for f, l in got)[:8])
    if len(g) == len(small) == 1 and len(got) != 1:
        return ("nothing but the rule itself", sorted(L.rule_str(f, l) for f, l in got)[:8])
    return None


def c_labels_unique(ctx, w):
    """deterministic binarization: every binarization symbol is defined by exactly one rule, used
    exactly once, with one fan-out, and is fresh w.r.t. the symbols of the input grammar"""
    if w.get("markov") is not None:
        raise Skip()
    g = _grammar(w)
    _in_domain(g)
    bg = _binarize(ctx, w, g)
    defs, uses = {}, {}
    for (f, l) in L.flat(bg):
        fo = L.lin_fanouts(l)
        if L.is_bin(f[0]):
            defs.setdefault(f[0], []).append(fo[0])
        for i, x in enumerate(f[1:]):
            if L.is_bin(x):
                uses.setdefault(x, []).append(fo[i + 1])
    n_expected = sum(max(0, len(f) - 3) for f in g for l in g[f])
    if set(defs) != set(uses) or len(defs) != n_expected:
        return ("%d binarization symbols, each defined and used" % n_expected,
                {"defined": sorted(defs), "used": sorted(uses)})
    for x in defs:
        if len(defs[x]) != 1 or len(uses[x]) != 1 or defs[x] != uses[x]:
            return ("symbol %s: one defining rule, one use, same fan-out" % x,
                    {"fanouts_defined": defs[x], "fanouts_used": uses[x]})
    return None


def c_unbinarize(ctx, w):
    """inlining all binarization symbols gives back exactly the original rules"""
    if w.get("markov") is not None:
        raise Skip()
    g = _grammar(w)
    _in_domain(g)
    bg = _binarize(ctx, w, g)
    try:
        un = L.unbinarize(bg)
        if not _exact(w):
            un2 = {}
            for (f, l), c in un.items():
                k = L.canon_rule(f, l)
                if k in un2:
                    return ("distinct rules stay distinct", L.rule_str(*k))
                un2[k] = c
            un = un2
    except L.LinError as e:
        return ("un-binarization succeeds", str(e))
    if set(un) != set(L.flat(g)):
        e, o = L.diff({k: 1 for k in L.flat(g)}, {k: 1 for k in un})
        return (sorted(L.show(e)), sorted(L.show(o)))
    return None


def c_fan_out_vector(ctx, w):
    """grammaranalysis.fan_out on binarized rules = the definition; use/definition agree grammar-wide
    when labels are unique"""
    ga = ctx.mod("grammaranalysis")
    g = _grammar(w)
    _in_domain(g)
    bg = _binarize(ctx, w, g)
    for (f, l) in L.flat(bg):
        got = ga.fan_out(l)
        if list(got) != L.lin_fanouts(l):
            return ("fan_out(%s) == %s" % (L.lin_str(l), L.lin_fanouts(l)), list(got))
    for f in g:
        for l in g[f]:
            got = ga.fan_out(l)
            if list(got) != L.lin_fanouts(l):
                return ("fan_out(%s) == %s" % (L.lin_str(l), L.lin_fanouts(l)), list(got))
    return None


def c_reordering(ctx, w):
    """what the reordering functions return is the same rule up to a permutation of the RHS
    (reordering_none: literally the same)"""
    gr = ctx.mod("grammar")
    func, lin = tuple(w["func"]), L.lin_from_json(w["lin"])
    if not L.is_canonical(lin):
        raise Skip()
    nf, nl = gr.reordering_none(func, lin)
    if (nf, nl) != (func, lin):
        return ("reordering_none returns the rule unchanged", L.rule_str(nf, nl))
    of, ol = gr.reordering_optimal(func, lin)
    try:
        L.check_lin_shape(ol)
        same = isinstance(of, tuple) and L.well_numbered(ol) and L.canon_rule(of, ol) == (func, lin)
    except L.LinError as e:
        return ("a well-formed rule", str(e))
    if not same:
        return ("a permutation of %s" % L.rule_str(func, lin), L.rule_str(of, ol))
    return None


def c_linsub_well_numbered(ctx, w):
    """the three instantiations of linsub used by binarize_rule (shift, split at None, merge to 1)
    keep arguments non-empty and second components numbered 0,1,2.. per RHS element"""
    gr = ctx.mod("grammar")
    lin = L.lin_from_json(w["lin"])
    if not L.is_canonical(lin):
        raise Skip()
    cur = lin
    r = L.lin_rank(lin)
    for step in range(r - 1):
        merged = gr.linsub(cur, lambda x: x > 0, lambda x: 1, True)
        for name, res in (("merge", merged),):
            if not res or any(len(a) == 0 for a in res) or not L.well_numbered(res):
                return ("%s of %s is well-numbered without empty arguments" % (name, L.lin_str(cur)),
                        L.lin_str(res))
            exp_fo = [len(cur), L.lin_fanouts(cur)[1]]
            if L.lin_fanouts(res)[:2] != exp_fo:
                return ("merge keeps the arguments and element 0: fan-outs %s" % exp_fo, L.lin_fanouts(res))
        shifted = gr.linsub(cur, lambda x: x >= 0, lambda x: x - 1, False)
        # element 0 became -1; split removes it
        split = gr.linsub(shifted, lambda x: x == -1, lambda x: None, False)
        if not split or any(len(a) == 0 for a in split) or not L.well_numbered(split):
            return ("removing element 0 from %s leaves a well-numbered linearization" % L.lin_str(cur),
                    L.lin_str(split) if split else repr(split))
        # by definition: drop element 0, cut arguments where it stood, renumber the rest
        exp = []
        for arg in cur:
            piece = []
            for (i, k) in arg:
                if i == 0:
                    if piece:
                        exp.append(tuple(piece))
                    piece = []
                else:
                    piece.append((i - 1, k))
            if piece:
                exp.append(tuple(piece))
        if tuple(exp) != split:
            return (L.lin_str(tuple(exp)), L.lin_str(split))
        cur = split
    return None


CLAUSES = {"chain": c_chain, "chain_in_grammar": c_chain_in_grammar, "binary": c_binary,
           "small_kept": c_small_kept, "labels_unique": c_labels_unique, "unbinarize": c_unbinarize,
           "fan_out_vector": c_fan_out_vector, "reordering": c_reordering,
           "linsub_well_numbered": c_linsub_well_numbered}
CLAUSES = {k: L.judged(v) for k, v in CLAUSES.items()}   # exceptions of the code under test are violations

RHS_DISTINCT = ["B", "C", "D", "E", "F", "G"]


def _labels(n, r):
    """label variants dealt over the rules: distinct (most), all equal, LHS label reused"""
    if n % 5 == 3:
        return ("A",) + ("B",) * r
    if n % 5 == 4:
        return ("A",) + tuple(["B", "A"][i % 2] for i in range(r))
    return ("A",) + tuple(RHS_DISTINCT[:r])


def _cfg_name(w):
    return "%s/%s" % (w["reordering"], L.markov_name(w.get("markov")))


def generate(ctx):
    b = BOUNDS(ctx)
    allm = L.all_markov()
    mi = 0
    batch = []
    bi = 0
    for n, lin in enumerate(L.enum_lins(b["R"], b["V"])):
        r = L.lin_rank(lin)
        func = _labels(n, r)
        base = {"func": list(func), "lin": L.lin_to_json(lin)}
        rs = L.rule_str(func, lin)
        nt = rs if r >= 3 else None
        yield "reordering", base, (rs if r >= 2 else None)
        if r >= 2:
            yield "linsub_well_numbered", base, rs
        for reo in ("none", "optimal"):
            cfgs = [None] + [allm[(mi + j) % len(allm)] for j in range(b["markov_per_rule"])]
            mi += b["markov_per_rule"]
            if n % b["full_markov_every"] == 0:
                cfgs = [None] + allm          # every configuration on a regular sample of rules
            for m in cfgs:
                w = dict(base, reordering=reo, markov=m)
                k = None if nt is None else nt + " " + _cfg_name(w)
                if r <= 2:
                    yield "small_kept", w, rs + " " + _cfg_name(w)
                yield "chain", w, k
        if n % 211 == 0:
            yield "chain", dict(base, reordering="absent", markov=None), nt
        batch.append([list(func), L.lin_to_json(lin), [[list(v), c] for v, c in _verts(func, lin).items()]])
        if len(batch) == b["batch"]:
            if bi % b["batch_every"] == 0:
                for it in _batch_items(batch, b, allm, bi):
                    yield it
            bi += 1
            batch = []
    if batch:
        for it in _batch_items(batch, b, allm, bi):
            yield it
    # grammars of random treebanks, every configuration
    rng = ctx.rng
    cfgs = L.covering_markov() if ctx.quick else allm
    for i in range(b["random_treebanks"]):
        k = rng.randint(1, 3)
        specs = list(L.random_specs(rng, k, 3, b["random_max_n"], p_flat=0.6, unary_p=0.15, shuffle=True,
                                     labels=["S", "NP"], pos=["NN", "VB"], words=["a", "b"]))
        key = " ".join(tg.spec_str(s) for s in specs)
        for reo in ("none", "optimal"):
            w = {"specs": specs, "reordering": reo, "markov": None}
            for c in ("binary", "chain_in_grammar", "labels_unique", "unbinarize", "fan_out_vector", "small_kept"):
                yield c, w, key + " " + _cfg_name(w)
            for m in cfgs:
                w = {"specs": specs, "reordering": reo, "markov": m}
                for c in ("binary", "chain_in_grammar", "small_kept"):
                    yield c, w, key + " " + _cfg_name(w)


def _batch_items(batch, b, allm, bi):
    # one grammar cannot hold the same (func, lin) twice: batches are consecutive distinct rules
    for reo in ("none", "optimal"):
        w = {"rules": batch, "reordering": reo, "markov": None}
        key = "batch%d %s" % (bi, reo)
        for c in ("binary", "labels_unique", "unbinarize", "fan_out_vector", "chain_in_grammar"):
            yield c, w, key
        for j in range(b["batch_markov"]):
            m = allm[(bi * b["batch_markov"] * 2 + j + (0 if reo == "none" else b["batch_markov"])) % len(allm)]
            w = {"rules": batch, "reordering": reo, "markov": m}
            for c in ("binary", "chain_in_grammar", "fan_out_vector"):
                yield c, w, key + " " + L.markov_name(m)


def classify(clause, witness, expected, observed):
    return None


def exhaustive(ctx):
    # rules x {none, optimal} x deterministic is enumerated completely; Markov configurations are
    # dealt over the rules and the treebank part is a sample
    return False
