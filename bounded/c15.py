"""C15 bounded stand-in: head marking.

negra_mark_heads and mark_heads_by_rules (presets 'negra', 'ptb') are run on
enumerated trees; the head child each constituent must get is computed here
from the property text (HD / rightmost NK / leftmost; "the only child whose
category is listed in the head rule of the parent's category").  The head
rule *tables* (transformconst.HEAD_RULES_*) are read as data -- they are what
"the head rule of the parent's category" refers to -- and interpreted here as
space-separated category lists; none of the logic under test is used.
"""
import importlib
import itertools
import re
from vlib import tg
from bounded.common import Skip
from bounded import lib_nav as L

RULE = ("NeGra heuristic: all tree shapes with n<=N tokens x ALL assignments of edges {HD,NK,--} to "
        "all non-root nodes (so several HD, several NK, none), stored child lists shuffled (seeded), "
        "plus seeded random trees with unary nodes. Rule-based: for both presets, every parent "
        "category of the table x every category listed in its head rule x child sequences of "
        "length 1..4 with that category at every position and every filling of the other positions "
        "from a pool of unlisted categories (dummy categories, a category listed only for another "
        "parent, a single character of the rule string) -- each both as a direct call of "
        "get_headpos_by_rule and as a tree through mark_heads_by_rules (stored order rotated); the same "
        "with decorated / case-varied labels (NP-SBJ-1, VP=2, NN', np, Np); random trees over the "
        "categories of the preset for the one-head clause; unknown presets / no rule source must raise. "
        "non-trivial = distinct input in which the expected head is not the leftmost child (NeGra) "
        "resp. distinct (preset, parent, child sequence) (rules)")

PRESETS = ("negra", "ptb")


def BOUNDS(ctx):
    return {"negra_exhaustive_shapes_n": 4 if ctx.quick else 5,
            "negra_edge_alphabet": ["HD", "NK", "--"],
            "negra_random_trees": 300 if ctx.quick else 5000, "random_max_n": 12,
            "rule_child_sequence_len": 4, "rule_decorated_sequence_len": 3 if ctx.quick else 4,
            "rule_unlisted_pool": 2 if ctx.quick else 3,
            "rule_random_trees_per_preset": 200 if ctx.quick else 3000}


SITES = {
    "negra_one_head": "trees.transform.negra_mark_heads",
    "negra_heuristic": "trees.transform.negra_mark_heads",
    "rules_one_head": "trees.transform.mark_heads_by_rules",
    "rules_unique_listed": "trees.transform.mark_heads_by_rules",
    "rules_unique_listed_decorated": "trees.transform.mark_heads_by_rules",
    "headpos_unique_listed": "trees.transformconst.get_headpos_by_rule",
    "headpos_unique_listed_decorated": "trees.transformconst.get_headpos_by_rule",
    "rules_rejects": "trees.transform.mark_heads_by_rules",
}


# ----------------------------------------------------------------------------
# reference reading of the property
# ----------------------------------------------------------------------------

def ref_negra_index(edges):
    """leftmost HD, else rightmost NK, else leftmost"""
    if "HD" in edges:
        return min(i for i, e in enumerate(edges) if e == "HD")
    if "NK" in edges:
        return max(i for i, e in enumerate(edges) if e == "NK")
    return 0


_DECO = re.compile(r"^(?P<cat>-|[^\-=']+)(?:-(?P<gf>[^\-=']*[^\-='0-9][^\-=']*))?(?:=(?P<gap>[0-9]+))?"
                   r"(?:-(?P<co>[0-9]+))?(?P<hm>')?$")


def ref_category(label):
    """category of a (possibly decorated) label: lower-cased, without
    grammatical function, gap index, co-index and head mark.  Only labels
    built as CAT(-GF)?(=d+)?(-d+)?'? with a CAT free of - = ' are in the
    domain (None otherwise)."""
    m = _DECO.match(label)
    if m is None:
        return None
    return m.group("cat").lower()


def tables(ctx_or_none=None):
    tc = importlib.import_module("trees.transformconst")
    return {"negra": tc.HEAD_RULES_NEGRA, "ptb": tc.HEAD_RULES_PTB}


def listed(rules, parent_cat):
    """categories listed in the head rule(s) of parent_cat (None: no rule)"""
    if parent_cat not in rules:
        return None
    out = set()
    for hrule in rules[parent_cat]:
        out.update(hrule[1].split())
    return out


def ref_unique_listed(rules, parent_label, child_labels):
    """position of the only child whose category is listed, else None"""
    pc = ref_category(parent_label)
    ccs = [ref_category(c) for c in child_labels]
    if pc is None or None in ccs:
        raise Skip()
    ls = listed(rules, pc)
    if not ls:
        return None
    hits = [i for i, c in enumerate(ccs) if c in ls]
    return hits[0] if len(hits) == 1 else None


def _one_head_violation(nav, t):
    """exactly one child True, all others False, root not marked"""
    if t.data.get("head", False):
        return ("root unmarked (data['head'] false)", t.data.get("head"))
    for n in nav.nodes:
        if len(n.children) == 0:
            continue
        marks = [c.data.get("head", "<missing>") for c in nav.kids(n)]
        if sum(1 for m in marks if m is True) != 1 or any(m is not True and m is not False for m in marks):
            return ("exactly one child of %s has head True, every other child False" % nav.nm(n),
                    [repr(m) for m in marks])
    return None


# ----------------------------------------------------------------------------
# clauses: NeGra heuristic
# ----------------------------------------------------------------------------

def c_negra_one_head(ctx, spec):
    trees, tf = ctx.mod("trees"), ctx.mod("transform")
    t = tg.build(spec, trees)
    nav = L.Nav(t)
    tf.negra_mark_heads(t)
    return _one_head_violation(nav, t)


def c_negra_heuristic(ctx, spec):
    trees, tf = ctx.mod("trees"), ctx.mod("transform")
    t = tg.build(spec, trees)
    nav = L.Nav(t)
    tf.negra_mark_heads(t)
    for n in nav.nodes:
        if len(n.children) == 0:
            continue
        kids = nav.kids(n)
        edges = [k.data["edge"] for k in kids]
        exp = ref_negra_index(edges)
        got = [i for i, k in enumerate(kids) if k.data.get("head") is True]
        if got != [exp]:
            return ("head of %s with child edges %s (left to right) is child %d"
                    % (nav.nm(n), edges, exp), got)
    return None


# ----------------------------------------------------------------------------
# clauses: rule-based marking
# ----------------------------------------------------------------------------

def _rules_of(preset):
    if preset not in PRESETS:
        raise Skip()
    return tables()[preset]


def c_headpos(ctx, w):
    tc = ctx.mod("transformconst")
    rules = _rules_of(w["preset"])
    exp = ref_unique_listed(rules, w["parent"], w["children"])
    if exp is None:
        raise Skip()
    if ref_category(w["parent"]) != w["parent"].lower():
        raise Skip()          # get_headpos_by_rule receives the bare parent category
    got = tc.get_headpos_by_rule(w["parent"], list(w["children"]), rules)
    if got != exp:
        return ("%s: only child %d (%s) is listed in the head rule of %s %s -> head position %d"
                % (w["preset"], exp, w["children"][exp], w["parent"],
                   sorted(listed(rules, ref_category(w["parent"]))), exp), got)
    return None


def seq_spec(parent, children, rules, rotate=1):
    """VROOT over one constituent `parent` whose children (left to right) carry
    the given labels: a category that has a head rule of its own becomes a
    unary constituent over a token, the others are tokens; stored rotated"""
    kids = []
    for i, lab in enumerate(children):
        leaf = tg.leaf_spec(i + 1, "w%d" % (i + 1), lab if (ref_category(lab) not in rules) else "XX")
        if ref_category(lab) in rules:
            kids.append(tg.node_spec(lab, [leaf]))
        else:
            kids.append(leaf)
    k = rotate % len(kids)
    kids = kids[k:] + kids[:k]
    top = tg.node_spec("VROOT", [tg.node_spec(parent, kids)])
    top["sid"] = 1
    return top


def c_rules_unique_listed(ctx, w):
    trees, tf = ctx.mod("trees"), ctx.mod("transform")
    rules = _rules_of(w["preset"])
    t = tg.build(w["spec"], trees)
    nav = L.Nav(t)
    tf.mark_heads_by_rules(t, mark_heads_preset=w["preset"])
    judged = 0
    for n in nav.nodes:
        if len(n.children) == 0:
            continue
        kids = nav.kids(n)
        labs = [k.data["label"] for k in kids]
        try:
            exp = ref_unique_listed(rules, n.data["label"], labs)
        except Skip:
            continue
        if exp is None:
            continue
        judged += 1
        got = [i for i, k in enumerate(kids) if k.data.get("head") is True]
        if got != [exp]:
            return ("%s: only child %d (%s) of %s is listed in its head rule %s -> it is the head"
                    % (w["preset"], exp, labs[exp], n.data["label"],
                       sorted(listed(rules, ref_category(n.data["label"])))),
                    {"children": labs, "head_children": got})
    if judged == 0:
        raise Skip()
    return None


def c_rules_one_head(ctx, w):
    trees, tf = ctx.mod("trees"), ctx.mod("transform")
    _rules_of(w["preset"])
    t = tg.build(w["spec"], trees)
    nav = L.Nav(t)
    tf.mark_heads_by_rules(t, mark_heads_preset=w["preset"])
    return _one_head_violation(nav, t)


REJECT_CASES = [
    {"params": {"mark_heads_preset": "foo"}, "why": "unknown preset"},
    {"params": {"mark_heads_preset": "tiger"}, "why": "unknown preset"},
    {"params": {"mark_heads_preset": ""}, "why": "unknown preset"},
    {"params": {"mark_heads_preset": "negra,ptb"}, "why": "unknown preset"},
    {"params": {}, "why": "no rule source"},
    {"params": {"gf": True}, "why": "no rule source"},
    {"params": {"mark_heads_rulefile": "/nonexistent/head.rules"}, "why": "rule file does not exist"},
    # {"mark_heads_rulefile": ""} is deliberately NOT in this list: whether an empty file name is a
    # "missing rule source" is not decided by the property text (the code treats it as "no rules",
    # every leftmost child becomes head); demanding a rejection would be stricter than the property.
]


def c_rules_rejects(ctx, w):
    trees, tf = ctx.mod("trees"), ctx.mod("transform")
    t = tg.build(w["spec"], trees)
    try:
        tf.mark_heads_by_rules(t, **w["params"])
    except ValueError:
        return None
    except OSError:
        if "mark_heads_rulefile" in w["params"]:
            return None
        return ("ValueError (%s)" % w["why"], "OSError")
    except Exception as e:      # noqa
        return ("ValueError (%s)" % w["why"], type(e).__name__)
    return ("ValueError (%s)" % w["why"], "returned normally")


CLAUSES = {
    "negra_one_head": c_negra_one_head, "negra_heuristic": c_negra_heuristic,
    "rules_one_head": c_rules_one_head,
    "rules_unique_listed": c_rules_unique_listed,
    "rules_unique_listed_decorated": c_rules_unique_listed,
    "headpos_unique_listed": c_headpos,
    "headpos_unique_listed_decorated": c_headpos,
    "rules_rejects": c_rules_rejects,
}


# ----------------------------------------------------------------------------
# generation
# ----------------------------------------------------------------------------

def _edge_assignments(shape, rng):
    """all assignments of {HD,NK,--} to the non-root nodes of the shape"""
    base = L.spec_with_order(shape, L.rot(0))
    slots = [s for s, p in tg.spec_nodes(base) if p is not None]
    for combo in itertools.product(tg.EDGES, repeat=len(slots)):
        cnt = itertools.count()

        def rec(s, top):
            s = dict(s)
            if not top:
                s["e"] = combo[next(cnt)]
            if "c" in s:
                kids = [rec(c, False) for c in s["c"]]
                rng.shuffle(kids)
                s["c"] = kids
            return s
        yield rec(base, True)


def _negra_nt(spec):
    """non-trivial: some constituent whose expected head is not its leftmost child"""
    def lm(s):
        return min(l["n"] for l in tg.spec_leaves(s))
    for s, _ in tg.spec_nodes(spec):
        if tg.is_leaf_spec(s):
            continue
        kids = sorted(s["c"], key=lm)
        if ref_negra_index([k["e"] for k in kids]) != 0:
            return tg.spec_str(spec) + "|" + " ".join(
                k["e"] for x, _ in tg.spec_nodes(spec) if not tg.is_leaf_spec(x) for k in x["c"])
    return None


def unlisted_pool(rules, parent, size):
    ls = listed(rules, parent) or set()
    pool = ["XX"]
    # a category that is listed for another parent but not for this one
    others = sorted(set(c for p in rules for c in (listed(rules, p) or ())) - ls - set([parent]))
    pool.append(others[0].upper() if others else "YY")
    # a single character of the rule string that is not itself a listed category
    chars = sorted(set(ch for hr in rules[parent] for ch in hr[1] if ch.isalnum()) - ls)
    pool.append(chars[0].upper() if chars else "ZZ")
    return pool[:size]


def sequences(rules, parent, pool, maxlen):
    ls = sorted(listed(rules, parent) or ())
    for cat in ls:
        for n in range(1, maxlen + 1):
            for pos in range(n):
                for fill in itertools.product(pool, repeat=n - 1):
                    seq = list(fill)
                    seq.insert(pos, cat.upper())
                    yield cat, pos, seq


def _decorate_variants(cat):
    if cat == "-":
        return [cat]
    return [cat + "-SBJ-1", cat + "=2", cat + "'", cat + "-HD=1-2'", cat.lower(), cat.capitalize(),
            cat.lower() + "-sbj"]


def _parent_cat(p):
    return p.upper()


def generate(ctx):
    b = BOUNDS(ctx)
    rng = ctx.rng
    # --- NeGra heuristic
    for n in range(1, b["negra_exhaustive_shapes_n"] + 1):
        for sh in tg.shapes(n):
            for spec in _edge_assignments(sh, rng):
                k = _negra_nt(spec)
                yield "negra_one_head", spec, k
                yield "negra_heuristic", spec, k
    for spec in tg.random_specs(rng, b["negra_random_trees"], 2, b["random_max_n"], unary_p=0.3,
                                shuffle=True):
        k = _negra_nt(spec)
        yield "negra_one_head", spec, k
        yield "negra_heuristic", spec, k
    # --- rejects
    small = seq_spec("NP", ["ART", "NN"], {})
    for case in REJECT_CASES:
        yield "rules_rejects", {"params": case["params"], "why": case["why"], "spec": small}, \
            repr(sorted(case["params"].items()))
    # --- rule-based: exactly one listed child
    tabs = tables()
    for preset in PRESETS:
        rules = tabs[preset]
        for parent in sorted(rules, key=lambda p: (not p.isalnum(), p)):
            pool = unlisted_pool(rules, parent, b["rule_unlisted_pool"])
            P = _parent_cat(parent)
            if not listed(rules, parent):
                # no category listed: only the one-head clause applies
                for n in range(1, 4):
                    spec = seq_spec(P, (pool * 3)[:n], rules)
                    yield "rules_one_head", {"preset": preset, "spec": spec}, \
                        "%s %s %d" % (preset, P, n)
                continue
            deco_done = set()
            for cat, pos, seq in sequences(rules, parent, pool, b["rule_child_sequence_len"]):
                key = "%s %s -> %s" % (preset, P, " ".join(seq))
                yield "headpos_unique_listed", {"preset": preset, "parent": P, "children": seq}, key
                w = {"preset": preset, "spec": seq_spec(P, seq, rules)}
                yield "rules_unique_listed", w, key
                yield "rules_one_head", w, key
                # decorated / case-varied labels: once per (category, length, position), plain fill
                if (cat, len(seq), pos) in deco_done or len(set(seq) - set([cat.upper()])) > 1 \
                        or len(seq) > b["rule_decorated_sequence_len"]:
                    continue
                deco_done.add((cat, len(seq), pos))
                for vi, var in enumerate(_decorate_variants(cat.upper())):
                    dseq = []
                    for i, c in enumerate(seq):
                        if i == pos:
                            dseq.append(var)
                        elif c == "-":
                            dseq.append(c)
                        else:
                            # an unlisted category decorated with the listed one as its function
                            dseq.append([c + "-" + cat.upper() if cat.isalnum() else c + "-OA",
                                         c + "-OA=3", c.lower() + "'"][(i + vi) % 3])
                    dkey = "%s %s -> %s" % (preset, P, " ".join(dseq))
                    for pv in (P, P.lower(), P.capitalize()):
                        yield "headpos_unique_listed_decorated", \
                            {"preset": preset, "parent": pv, "children": dseq}, dkey + "|" + pv
                    pvs = [P, P.lower()] if P == "-" else [P + "-SBJ-1", P + "=2", P.lower() + "-oa", P + "'"]
                    pv = pvs[vi % len(pvs)]
                    yield "rules_unique_listed_decorated", \
                        {"preset": preset, "spec": seq_spec(pv, dseq, rules, rotate=vi)}, dkey + "|" + pv
        # --- random trees over the categories of the preset: one head per constituent
        cats = sorted(set(c for p in rules for c in (listed(rules, p) or ())) | set(rules))
        cats = [c.upper() for c in cats if c != "vroot"] + ["XX"]
        for i in range(b["rule_random_trees_per_preset"]):
            nn = rng.randint(1, 8)
            spec = tg.spec_from_shape(tg.random_shape(rng, nn), rng, labels=cats, pos=cats,
                                      unary_p=0.3, shuffle=True)
            w = {"preset": preset, "spec": spec}
            yield "rules_one_head", w, "%s rnd %d" % (preset, i)
            yield "rules_unique_listed", w, "%s rnd %d" % (preset, i)


# ----------------------------------------------------------------------------
# classification of failures
# ----------------------------------------------------------------------------

def _model_by_character(rules, parent_cat, child_cats, split_fixed=False):
    """what get_headpos_by_rule returns when it walks over the *characters* of the
    priority string and leaves the right-to-left branch after the first one
    (split_fixed: walks over categories but still leaves early)"""
    if parent_cat not in rules:
        return 0
    for direction, prio in rules[parent_cat]:
        if len(prio) == 0:
            return len(child_cats) - 1 if direction == "left-to-right" else 0
        for lab in (prio.split() if split_fixed else prio):
            order = list(range(len(child_cats)))
            if direction == "right-to-left":
                order.reverse()
            for i in order:
                if child_cats[i] == lab:
                    return i
            if direction == "right-to-left":
                return 0
    return 0


def _cases_of(clause, witness):
    """(rules, parent_cat, child_cats, expected) of every judged constituent"""
    rules = tables()[witness["preset"]]
    out = []
    if clause.startswith("headpos"):
        out.append((witness["parent"], witness["children"]))
    else:
        def lm(s):
            return min(l["n"] for l in tg.spec_leaves(s))
        for s, _ in tg.spec_nodes(witness["spec"]):
            if not tg.is_leaf_spec(s):
                out.append((s["l"], [k["l"] for k in sorted(s["c"], key=lm)]))
    res = []
    for p, kids in out:
        try:
            exp = ref_unique_listed(rules, p, kids)
        except Skip:
            continue
        if exp is not None:
            res.append((rules, ref_category(p), [ref_category(k) for k in kids], exp))
    return res


def classify(clause, witness, expected, observed):
    if clause in ("headpos_unique_listed", "headpos_unique_listed_decorated",
                  "rules_unique_listed", "rules_unique_listed_decorated"):
        try:
            cases = _cases_of(clause, witness)
        except Exception:      # noqa
            return None
        if clause.startswith("headpos"):
            got = [observed]
        else:
            got = None
        for rules, pc, ccs, exp in cases:
            m1 = _model_by_character(rules, pc, ccs)
            m2 = _model_by_character(rules, pc, ccs, split_fixed=True)
            if got is not None:
                obs = got[0]
            else:
                hc = observed.get("head_children") if isinstance(observed, dict) else None
                if not hc or len(hc) != 1 or observed.get("children") is None or \
                        [ref_category(k) for k in observed["children"]] != ccs:
                    continue
                obs = hc[0]
            if obs == exp:
                continue
            if obs == m1 and obs == m2:
                # produced by the walk over characters and equally by the early return
                return "right-to-left-rule-gives-up-after-first-entry"
            if obs == m1:
                return "rule-string-iterated-by-character"
            if obs == m2:
                return "right-to-left-rule-gives-up-after-first-category"
        return None
    if clause == "rules_rejects" and observed == "returned normally" \
            and witness.get("params") == {"mark_heads_rulefile": ""}:
        return "empty-rulefile-accepted-as-no-rules"
    return None


def exhaustive(ctx):
    return False    # stored child orders and the random trees are seeded samples
