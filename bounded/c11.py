"""C11 bounded stand-in: token-editing transformations change exactly the
targeted tokens.

Every expectation is computed from the spec the tree was built from (token
list, constituents as (label, token set)) by the reference semantics in
lib_misc (`ref_delete_tokens`, `ref_insert`, `ref_substitute`,
`ref_strip_indices`), which are transcriptions of the property text and the
docstrings.  The root object handed to the transformation is kept by the
oracle, so the content of the whole tree is judged from that root whatever
the transformation returns; the identity of the returned node is judged last.
"""
import os

from vlib import tg
from bounded.common import Skip
from bounded import lib_misc as lm

RULE = ("all tree shapes with n<=N tokens (discontinuous ones included), randomly decorated with unary nodes (also "
        "above tokens; for a quarter of the trees also a unary node directly below the root) and shuffled child lists, "
        "plus seeded random trees up to 8 tokens; punctuation / trace tokens "
        "on every subset of positions (n<=4) or a seeded subset; every token for delete_terminal; a fixed family of "
        "terminal files per tree (valid at every position, n+1, n+2, 100, 0, negative, mixed, 2-3 requests per "
        "sentence where a later one lies beyond the original length + 1 but inside / outside the grown sentence, "
        "other sentence id, "
        "duplicate index, 3-field lines) x quiet; all operators x values 0..n+1 for filter_by_length.  Non-trivial = "
        "distinct (function, tree, parameters) for which at least one token is targeted")


def BOUNDS(ctx):
    return {"exhaustive_shapes_n": 4 if ctx.quick else 5,
            "punct_masks": "all subsets for n<=4, else 6 seeded",
            "random_trees": 120 if ctx.quick else 1500, "random_max_n": 8,
            "trace_param_sets": len(TRACE_PARAMS),
            "terminal_file_variants": "about 25 per tree x quiet on/off"}


SITES = {
    "delete_terminal": "trees.trees.delete_terminal",
    "punctuation_delete": "trees.transform.punctuation_delete",
    "ptb_delete_traces": "trees.transform.ptb_delete_traces",
    "insert_terminals": "trees.transform.insert_terminals",
    "substitute_terminals": "trees.transform.substitute_terminals",
    "filter_by_length": "trees.transform.filter_by_length",
}


# ----------------------------------------------------------------------------
# shared checks
# ----------------------------------------------------------------------------

def _content(root, exp_tokens, exp_cons=None, normal=None):
    """violations of: well-formed (no childless constituent, 1..n), tokens as
    expected, constituents as expected"""
    errs = tg.wf_errors(root, expect_n=len(exp_tokens))
    toks = lm.tree_tokens(root)
    if errs:
        return ({"wf": "well-formed, numbered 1..%d, no childless constituent" % len(exp_tokens),
                 "tokens": [list(t) for t in exp_tokens]},
                {"wf": errs[:4], "tokens": [list(t) for t in toks], "nums": lm.tree_nums(root)})
    if toks != [tuple(t) for t in exp_tokens]:
        return ({"tokens": [list(t) for t in exp_tokens]}, {"tokens": [list(t) for t in toks]})
    if exp_cons is not None:
        got = lm.tree_cons(root)
        if normal is not None:
            got = sorted((normal(l), y) for l, y in got)
        if got != sorted(exp_cons):
            return ({"constituents": [list(c) for c in sorted(exp_cons)]}, {"constituents": [list(c) for c in got]})
    return None


def _returned(res, root):
    if res is not root:
        what = "None" if res is None else "node %r (parent %s)" % (
            res.data.get("label"), "None" if res.parent is None else repr(res.parent.data.get("label")))
        return ("the root of the whole tree is returned", {"returned": what})
    return None


# ----------------------------------------------------------------------------
# delete_terminal
# ----------------------------------------------------------------------------

def c_delete_terminal(ctx, w):
    spec, num = w["spec"], w["num"]
    n = len(tg.spec_leaves(spec))
    if n < 2 or not 1 <= num <= n:
        raise Skip()
    trees = ctx.mod("trees")
    root = tg.build(spec, trees)
    leaf = [x for x in tg.all_nodes(root) if not x.children and x.data["num"] == num][0]
    # documented return value: lowest ancestor that keeps a token, else the root
    depth, anc = 0, leaf
    chain = []
    while anc.parent is not None:
        anc = anc.parent
        chain.append(anc)
    ys = tg.model(root)["yield"]
    survivor = None
    for a in chain:
        if len(ys[id(a)]) >= 2:
            survivor = a
            break
    if survivor is None:
        survivor = root
    res = trees.delete_terminal(root, leaf)
    toks, cons = lm.ref_delete_tokens(spec, {num})
    bad = _content(root, toks, cons)
    if bad:
        return bad
    if res is not survivor:
        return ("returns the lowest surviving ancestor %r" % survivor.data["label"],
                {"returned": None if res is None else res.data.get("label")})
    return None


# ----------------------------------------------------------------------------
# punctuation_delete
# ----------------------------------------------------------------------------

def c_punctuation_delete(ctx, w):
    spec, quiet = w["spec"], w["quiet"]
    trees, tf = ctx.mod("trees"), ctx.mod("transform")
    leaves = tg.spec_leaves(spec)
    drop = set(l["n"] for l in leaves if l["w"] in lm.PUNCT)
    root = tg.build(spec, trees)
    params = {"quiet": True} if quiet else {}
    with lm.capture_stdout() as buf:
        res = tf.punctuation_delete(root, **params)
    printed = [l for l in buf.getvalue().split("\n") if l != ""]
    if len(drop) == len(leaves):
        drop = set()          # punctuation-only sentence: documented as left alone
    toks, cons = lm.ref_delete_tokens(spec, drop)
    bad = _content(root, toks, cons)
    if bad:
        return bad
    exp_lines = ["%s\t%s\t%s\t%s" % (spec.get("sid"), l["n"], l["w"], l["l"]) for l in leaves if l["n"] in drop]
    if printed != exp_lines and not (quiet and printed == []):
        return ({"stdout": exp_lines}, {"stdout": printed})
    return _returned(res, root)


# ----------------------------------------------------------------------------
# ptb_delete_traces
# ----------------------------------------------------------------------------

TRACE_WORDS = ["*T*-1", "*-2", "*U*", "0", "*EXP*-3", "*ICH*-1", "*T*-2", "*"]
TRACE_LABEL_SUFFIX = ["", "-1", "=2", "=2-1", "-12", "", "-2", "-3"]
TRACE_LABEL_BASE = ["S", "NP", "VP", "NP-SBJ", "WHNP", "SBAR-TMP"]
TRACE_PARAMS = [
    {}, {"keepall": True}, {"keep": "*T*"}, {"keep": "*T*,*,0"}, {"keepcoindex": True},
    {"keepall": True, "keepcoindex": True}, {"keep": "*T*,*EXP*", "keepcoindex": True},
    {"keepall": True, "slash": True}, {"keepall": True, "keepcoindex": True, "slash": True},
    {"keep": "*T*", "slash": "WHNP,NP"}, {"slash": True},
]


def _no_slash(label):
    return label.split("/")[0]


def _expect_tokens(spec, new_tok, drop):
    out = []
    for l in tg.spec_leaves(spec):
        if l["n"] in drop:
            continue
        out.append(tuple(new_tok[l["n"]]) if l["n"] in new_tok else (l["w"], l["l"]))
    return out


def _trace_plan(spec, params, buggy_keep=False):
    """(drop, optional drops, replacement tokens) for the documented reading: a trace is kept iff keepall or its
    label without indices is listed in keep.  buggy_keep: the label *with* its co-index must be listed when
    keepcoindex is given (used by classify only)"""
    keep = params["keep"].split(",") if "keep" in params else []
    keepall, keepco, slash = "keepall" in params, "keepcoindex" in params, "slash" in params
    drop, may_drop, new_tok = set(), set(), {}
    for l in tg.spec_leaves(spec):
        if l["l"] != "-NONE-":
            continue
        bare = lm.ref_strip_indices(l["w"], False)
        shown = lm.ref_strip_indices(l["w"], keepco)
        if keepall or (shown if buggy_keep else bare) in keep:
            new_tok[l["n"]] = ("-NONE-", shown)
            if slash:
                may_drop.add(l["n"])      # documented in the code only: a kept trace without filler is deleted
        else:
            drop.add(l["n"])
    return drop, may_drop, new_tok


def c_ptb_delete_traces(ctx, w):
    spec, params = w["spec"], w["params"]
    trees, tf = ctx.mod("trees"), ctx.mod("transform")
    leaves = tg.spec_leaves(spec)
    traces = [l for l in leaves if l["l"] == "-NONE-"]
    if len(traces) == len(leaves):
        raise Skip()          # a sentence of traces only cannot keep its root
    keepco, slash = "keepcoindex" in params, "slash" in params
    drop, may_drop, new_tok = _trace_plan(spec, params)
    root = tg.build(spec, trees)
    try:
        res = tf.ptb_delete_traces(root, **params)
    except ValueError:
        if slash:
            raise Skip()      # co-indexation that the slash annotation cannot resolve
        raise
    strip = lambda lab: lm.ref_strip_indices(_no_slash(lab) if slash else lab, False)
    spec2 = lm.copy_spec(spec)
    for l in tg.spec_leaves(spec2):
        if l["n"] in new_tok:
            l["w"], l["l"] = new_tok[l["n"]]
    # under slash any subset of the kept traces may have been given up (a kept trace without filler is deleted:
    # stated in the code only).  The tree must agree with the reference for one of these subsets.
    cand = sorted(may_drop)
    bad = None
    for k in range(0, 2 ** len(cand)):
        sub = set(c for i, c in enumerate(cand) if k >> i & 1)
        toks, cons = lm.ref_delete_tokens(spec2, drop | sub)
        cons = sorted((strip(lab), ys) for lab, ys in cons)
        res_k = _content(root, toks, cons, normal=strip)
        if res_k is None:
            bad = None
            break
        if bad is None:
            bad = res_k
    if bad:
        return bad
    # no trace token unless kept; no index on any label unless asked for
    for n in tg.all_nodes(root):
        if n.children:
            lab = _no_slash(n.data["label"]) if slash else n.data["label"]
            if lm.label_has_index(lab, allow_coindex=keepco):
                return ("no gap index%s on any label" % ("" if keepco else " / co-index"), {"label": n.data["label"]})
        else:
            if n.data["label"] == "-NONE-":
                return ("no trace token remains", {"token": [n.data["word"], n.data["label"]]})
            if n.data["word"] == "-NONE-" and lm.label_has_index(n.data["label"], allow_coindex=keepco):
                return ("no index on a kept trace label", {"token": [n.data["word"], n.data["label"]]})
    return _returned(res, root)


# ----------------------------------------------------------------------------
# insert_terminals / substitute_terminals
# ----------------------------------------------------------------------------

def _call_with_file(ctx, fn_name, root, lines, quiet, raw_text=None):
    tf = ctx.mod("transform")
    with lm.tempdir() as d:
        path = os.path.join(d, lm.uniq("terminals") + ".txt")     # fresh name: the cache by name is C18's business
        lm.write_text(path, raw_text if raw_text is not None else lm.terminal_file_text(lines))
        params = {"terminalfile": path}
        if quiet:
            params["quiet"] = True
        return getattr(tf, fn_name)(root, **params)


def c_insert_terminals(ctx, w):
    spec, lines, quiet = w["spec"], w["lines"], w["quiet"]
    if any(len(l) != 4 or l[3] is None for l in lines):
        raise Skip()          # insertion needs the POS column
    trees = ctx.mod("trees")
    sid = spec["sid"]
    root = tg.build(spec, trees)
    if lm.has_duplicate(lines):
        try:
            _call_with_file(ctx, "insert_terminals", root, lines, quiet)
        except Exception:
            return None
        return ("a file with a duplicate index is rejected", "returned normally")
    before = lm.spec_tokens(spec)
    reqs = [(idx, wd, p) for s, idx, wd, p in lines if s == sid]
    exp_tokens, done = lm.ref_insert(before, reqs)
    try:
        res = _call_with_file(ctx, "insert_terminals", root, lines, quiet)
    except Exception as e:
        return ({"tokens": [list(t) for t in exp_tokens]}, {"raised": "%s: %s" % (type(e).__name__, e)})
    # constituents: original ones keep their tokens (renumbered), the root covers everything
    pos_of, k = {}, 0
    for i in range(1, len(exp_tokens) + 1):
        if i not in done:
            k += 1
            pos_of[k] = i
    cons = []
    for lab, ys in lm.spec_cons(spec):
        cons.append((lab, tuple(sorted(pos_of[y] for y in ys))))
    # the root additionally dominates the new tokens
    all_old = tuple(sorted(pos_of.values()))
    full = tuple(range(1, len(exp_tokens) + 1))
    rootlab = spec["l"]
    fixed, replaced = [], False
    for lab, ys in cons:
        if not replaced and lab == rootlab and ys == all_old:
            fixed.append((lab, full))
            replaced = True
        else:
            fixed.append((lab, ys))
    bad = _content(root, exp_tokens, fixed)
    if bad:
        return bad
    for n in tg.all_nodes(root):
        if not n.children and n.data["num"] in done and n.parent is not root:
            return ("inserted token %d is attached to the root" % n.data["num"],
                    {"parent": n.parent.data.get("label") if n.parent is not None else None})
    return _returned(res, root)


def c_substitute_terminals(ctx, w):
    spec, lines, quiet = w["spec"], w["lines"], w["quiet"]
    trees = ctx.mod("trees")
    sid = spec["sid"]
    root = tg.build(spec, trees)
    if lm.has_duplicate(lines):
        try:
            _call_with_file(ctx, "substitute_terminals", root, lines, quiet)
        except Exception:
            return None
        return ("a file with a duplicate index is rejected", "returned normally")
    before = lm.spec_tokens(spec)
    reqs = [(idx, wd, p) for s, idx, wd, p in lines if s == sid]
    exp_tokens = lm.ref_substitute(before, reqs)
    try:
        res = _call_with_file(ctx, "substitute_terminals", root, lines, quiet)
    except Exception as e:
        return ({"tokens": [list(t) for t in exp_tokens]}, {"raised": "%s: %s" % (type(e).__name__, e)})
    bad = _content(root, exp_tokens, lm.spec_cons(spec))
    if bad:
        return bad
    return _returned(res, root)


# ----------------------------------------------------------------------------
# filter_by_length
# ----------------------------------------------------------------------------

def c_filter_by_length(ctx, w):
    spec, op, val = w["spec"], w["op"], w["val"]
    trees, tf = ctx.mod("trees"), ctx.mod("transform")
    n = len(tg.spec_leaves(spec))
    root = tg.build(spec, trees)
    before = lm.full_state(root)
    res = tf.filter_by_length(root, filteroperator=op, filtervalue=val)
    dropped = {"lt": n < val, "gt": n > val, "eq": n == val}[op]
    if dropped:
        if res is not None:
            return ("None (tree with %d tokens, %s %d)" % (n, op, val), "a tree")
        return None
    if res is None:
        return ("the tree (%d tokens, %s %d)" % (n, op, val), None)
    if lm.full_state(root) != before:
        return ("tree unchanged", "tree modified")
    return _returned(res, root)


CLAUSES = {"delete_terminal": c_delete_terminal, "punctuation_delete": c_punctuation_delete,
           "ptb_delete_traces": c_ptb_delete_traces, "insert_terminals": c_insert_terminals,
           "substitute_terminals": c_substitute_terminals, "filter_by_length": c_filter_by_length}

CLAUSES = dict((k, lm.guard(v)) for k, v in CLAUSES.items())


# ----------------------------------------------------------------------------
# classification
# ----------------------------------------------------------------------------

def _returned_inner(observed):
    return isinstance(observed, dict) and "returned" in observed and str(observed["returned"]).startswith("node ")


def _buggy_substitute(tokens, requests):
    """what `terminals[idx - 1]` does when the range test does not `continue` (classify only)"""
    toks = list(tokens)
    for idx, w, p in sorted(requests, key=lambda r: r[0]):
        try:
            old = toks[idx - 1]
        except IndexError:
            return "IndexError"
        toks[idx - 1] = (w, p if p is not None else old[1])
    return [list(t) for t in toks]


def classify(clause, w, expected, observed):
    if clause == "punctuation_delete" and _returned_inner(observed):
        return "returns-inner-node"
    if clause == "substitute_terminals" and w.get("quiet") and isinstance(observed, dict):
        n = len(tg.spec_leaves(w["spec"]))
        sid = w["spec"]["sid"]
        reqs = [(l[1], l[2], l[3]) for l in w["lines"] if l[0] == sid]
        if any(not 1 <= r[0] <= n for r in reqs) and not lm.has_duplicate(w["lines"]):
            pred = _buggy_substitute(lm.spec_tokens(w["spec"]), reqs)
            if pred == "IndexError" and "IndexError" in str(observed.get("raised")):
                return "out-of-range-not-ignored-under-quiet"
            if pred != "IndexError" and observed.get("tokens") == pred:
                return "out-of-range-not-ignored-under-quiet"
    if clause == "insert_terminals" and isinstance(observed, dict):
        sid = w["spec"]["sid"]
        neg = [l for l in w["lines"] if l[0] == sid and l[1] < 0]
        if neg and not lm.has_duplicate(w["lines"]) and any(x < 0 for x in observed.get("nums", [])):
            return "negative-index-inserted"
    if clause == "ptb_delete_traces" and isinstance(observed, dict) and "tokens" in observed:
        p = w["params"]
        if "keep" in p and "keepcoindex" in p and "keepall" not in p and "slash" not in p:
            drop, _, new_tok = _trace_plan(w["spec"], p, buggy_keep=True)
            if [list(t) for t in _expect_tokens(w["spec"], new_tok, drop)] == observed["tokens"]:
                return "keep-with-keepcoindex-deletes-coindexed-trace"
    return None


# ----------------------------------------------------------------------------
# generation
# ----------------------------------------------------------------------------

PLAIN = ["der", "Hund", "bellt", "laut", "Haus", "sieht", "a&b", "äpfel"]
PUNCT_POOL = [",", ".", "\"", "(", ")", "-", "''", "``", ":", "-LRB-", "...", "--", "/", "?", "-RSB-"]


def _unary_root(spec, rng):
    """tg never puts a unary node at the root of a sentence with more than one token: do it here for a quarter of
    the trees (VROOT -> X -> the former children of VROOT)"""
    if rng.random() < 0.25 and len(spec["c"]) > 1:
        inner = {"l": rng.choice(tg.LABELS), "e": rng.choice(tg.EDGES), "c": spec["c"]}
        spec = dict(spec)
        spec["c"] = [inner]
    return spec


def _base_specs(ctx, b):
    rng = ctx.rng
    for n in range(1, b["exhaustive_shapes_n"] + 1):
        for sh in tg.shapes(n):
            yield _unary_root(tg.spec_from_shape(sh, rng, words=PLAIN, unary_p=0.3, shuffle=True), rng)
    for _ in range(b["random_trees"]):
        n = rng.randint(2, b["random_max_n"])
        yield _unary_root(tg.spec_from_shape(tg.random_shape(rng, n), rng, words=PLAIN, unary_p=0.3, shuffle=True), rng)


def _masks(ctx, n, full_ok):
    if n <= 4:
        ms = list(range(1, 2 ** n))
    else:
        ms = sorted(set(ctx.rng.randrange(1, 2 ** n) for _ in range(6)))
    if not full_ok:
        ms = [m for m in ms if m != 2 ** n - 1]
    return ms


def _with_punct(ctx, spec, mask):
    s = lm.copy_spec(spec)
    for l in tg.spec_leaves(s):
        if mask >> (l["n"] - 1) & 1:
            l["w"] = ctx.rng.choice(PUNCT_POOL)
            l["l"] = "$("
    return s


def _with_traces(ctx, spec, mask):
    s = lm.copy_spec(spec)
    rng = ctx.rng
    for l in tg.spec_leaves(s):
        if mask >> (l["n"] - 1) & 1:
            l["w"] = rng.choice(TRACE_WORDS)
            l["l"] = "-NONE-"
    first = True
    for node, parent in tg.spec_nodes(s):
        if tg.is_leaf_spec(node) or parent is None:
            continue
        node["l"] = rng.choice(TRACE_LABEL_BASE) + rng.choice(TRACE_LABEL_SUFFIX)
    return s


def _terminal_files(n, sid):
    """family of terminal files for a sentence with n tokens and id sid"""
    other = sid + 7
    fam = []
    for i in range(1, n + 2):
        fam.append([[sid, i, "NEU%d" % i, "XY"]])
    fam.append([[sid, n + 2, "NEU", "XY"]])
    fam.append([[sid, 100, "NEU", "XY"]])
    fam.append([[sid, 0, "NEU", "XY"]])
    fam.append([[sid, -1, "NEU", "XY"]])
    fam.append([[sid, -n, "NEU", "XY"]])
    fam.append([[sid, 0, "A", "XA"], [sid, 1, "B", "XB"], [sid, 100, "C", "XC"]])
    fam.append([[sid, n + 1, "B", "XB"], [sid, 1, "A", "XA"]])
    fam.append([[sid, 2, "B", "XB"], [sid, 1, "A", "XA"], [sid, n + 5, "C", "XC"]])
    # several requests for one sentence: they are handled in ascending order, each one relative to the
    # sentence as grown so far (lm.ref_insert) -- a later request may lie beyond the ORIGINAL length + 1
    # and still inside the grown sentence; beyond the grown length + 1 it is outside and ignored
    fam.append([[sid, n + 1, "A", "XA"], [sid, n + 2, "B", "XB"]])                              # append two
    fam.append([[sid, n + 2, "B", "XB"], [sid, n + 1, "A", "XA"]])                              # same, file order reversed
    fam.append([[sid, n + 1, "A", "XA"], [sid, n + 2, "B", "XB"], [sid, n + 3, "C", "XC"]])     # append three
    fam.append([[sid, 1, "A", "XA"], [sid, 2, "B", "XB"], [sid, n + 3, "C", "XC"]])             # grow, then append
    fam.append([[sid, n + 2, "C", "XC"], [sid, 1, "A", "XA"]])                                  # prepend, then append
    fam.append([[sid, max(1, n), "A", "XA"], [sid, n + 2, "B", "XB"], [other, n + 3, "D", "XD"]])
    fam.append([[sid, n + 1, "A", "XA"], [sid, n + 3, "C", "XC"]])      # n+3 is outside the grown sentence (n+1 tokens)
    fam.append([[sid, 1, "A", "XA"], [sid, n + 3, "C", "XC"], [sid, n + 4, "D", "XD"]])         # both outside
    fam.append([[sid, 0, "A", "XA"], [sid, n + 2, "B", "XB"]])          # nothing grows: n+2 stays outside
    fam.append([[other, 1, "A", "XA"]])
    fam.append([[other, 1, "A", "XA"], [sid, 1, "B", "XB"], [other, 2, "C", "XC"]])
    fam.append([[sid, 1, "A", "XA"], [other, 1, "B", "XB"]])               # same index, different sentences: fine
    fam.append([[sid, 1, "A", "XA"], [sid, 1, "B", "XB"]])                 # duplicate
    fam.append([[other, 3, "A", "XA"], [other, 3, "B", "XB"], [sid, 1, "C", "XC"]])   # duplicate elsewhere
    fam.append([[sid, 1, "A", None]])                                       # 3 fields (substitute only)
    fam.append([[sid, n, "A", None], [sid, 1, "B", "XB"]])
    return fam


def _targets(sid, n, lines, lo, hi):
    return any(l[0] == sid and lo <= l[1] <= hi for l in lines)


def generate(ctx):
    b = BOUNDS(ctx)
    rng = ctx.rng
    base = list(_base_specs(ctx, b))
    for i, spec in enumerate(base):
        n = len(tg.spec_leaves(spec))
        key = tg.spec_str(spec)
        # delete_terminal: every token
        if n >= 2:
            for num in range(1, n + 1):
                yield "delete_terminal", {"spec": spec, "num": num}, "%s|%d" % (key, num)
        # punctuation on subsets of the positions
        for mask in [0] + _masks(ctx, n, True):
            s = _with_punct(ctx, spec, mask)
            yield "punctuation_delete", {"spec": s, "quiet": (mask + i) % 2 == 0}, \
                (tg.spec_str(s) if mask else None)
        # traces
        masks = _masks(ctx, n, False)
        if len(masks) > 4:
            masks = rng.sample(masks, 4)
        for mask in [0] + masks:
            s = _with_traces(ctx, spec, mask)
            for params in (TRACE_PARAMS if mask else TRACE_PARAMS[:2]):
                yield "ptb_delete_traces", {"spec": s, "params": params}, \
                    (tg.spec_str(s) + repr(sorted(params.items())) if mask else None)
        # filter_by_length
        for op in ("lt", "gt", "eq"):
            for val in range(0, n + 2):
                yield "filter_by_length", {"spec": spec, "op": op, "val": val}, "%s|%s%d" % (key, op, val)
    # terminal files: one decoration per shape plus some random trees, sentence ids vary
    small = [s for s in base if len(tg.spec_leaves(s)) <= 4]
    tf_specs = small[:48 if ctx.quick else 400] + base[-(20 if ctx.quick else 200):]
    for i, spec in enumerate(tf_specs):
        spec = lm.copy_spec(spec)
        spec["sid"] = 1 + (i % 3) * 4
        n = len(tg.spec_leaves(spec))
        key = tg.spec_str(spec)
        for j, lines in enumerate(_terminal_files(n, spec["sid"])):
            for quiet in (False, True):
                k = "%s|%d|%s" % (key, j, quiet)
                yield "insert_terminals", {"spec": spec, "lines": lines, "quiet": quiet}, \
                    (k if _targets(spec["sid"], n, lines, 1, n + 1) else None)
                yield "substitute_terminals", {"spec": spec, "lines": lines, "quiet": quiet}, \
                    (k if _targets(spec["sid"], n, lines, 1, n) else None)


def exhaustive(ctx):
    return False
