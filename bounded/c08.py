"""C08 bounded stand-in: rule and lexicon counts are conserved through
extraction and binarization.

The expected numbers (nodes per label, tokens per tag, roots, occurrences of
each rule and of each (rule, vertical context)) are computed from the tree
specs; the grammar is produced by the real extract / binarize.  The equations
are the ones of the property text:

  lhs_counts       for each original nonterminal A:
                   sum of counts of rules rewriting A == number of nodes labelled A
  balance          for every symbol X (incl. binarization symbols):
                   sum count(rules with LHS X) + lexicon count of X as a tag
                   == count-weighted occurrences of X on right-hand sides + occurrences as a root
  rule_occurrences a rule seen in several trees / vertical contexts carries the sum of its
                   occurrences (every (rule, context) of the treebank grammar; every rule kept
                   as it is, and every un-binarized rule, of a binarized grammar)
  file_counts_*    the count field of the written files is that sum
"""
import copy
import os
from vlib import tg
from bounded.common import Skip
from bounded import lib_grammar as L

RULE = ("treebanks ordered by size: every tree with <=3 tokens over labels {S,NP} with up to 2 inserted unary "
        "nodes (so that the same rule occurs under different parents), all shapes n<=N with uniform / cyclic "
        "labels, each alone and doubled, all pairs of the smallest trees, every discontinuous one of these trees "
        "together with its continuous twin (same labels and dominance, tokens renumbered depth first: the same "
        "rules under ancestors with the same label but another fan-out), seeded pairs / triples of the rest, "
        "random treebanks; x grammar types {treebank, leftright, optimal} x {deterministic, Markov v,h in 0..3 "
        "with/without nofanout}.  Wide flat constituents (a horizontal context shorter than the rule sees the same "
        "window several times inside ONE rule): NP with K..Kmax token children whose tags run through every "
        "pattern of repetition over <=2 tags (K children) / the periodic patterns over <=3 tags (more children), "
        "the coordination NP -> NP PU NP PU .. NP, wide nodes with a gap; each alone, and -- for the periodic "
        "ones -- once below VROOT and twice below S (same rule, repeated, under different parents), as separate "
        "trees and inside one tree; these under EVERY v,h in 0..3 with/without nofanout, leftright and optimal.  "
        "Non-trivial = some rule occurs more than once or in more than one vertical context, or a rule with >=5 "
        "children repeats a child label (key = treebank + configuration)")


def BOUNDS(ctx):
    if ctx.quick:
        return {"tiny_tokens": 3, "shapes_n": 4, "small_pairs_from": 16, "seeded_tuples": 60,
                "random_treebanks": 30, "random_max_n": 9, "markov": "covering(20 of 32)",
                "markov_per_larger_treebank": 5,
                "wide_children": [5, 7], "wide_all_patterns_tags": 2, "wide_markov": "all 32"}
    return {"tiny_tokens": 3, "shapes_n": 5, "small_pairs_from": 40, "seeded_tuples": 1500,
            "random_treebanks": 600, "random_max_n": 12, "markov": "all 32",
            "markov_per_larger_treebank": 8,
            "wide_children": [5, 8], "wide_all_patterns_tags": 3, "wide_markov": "all 32"}


SITES = {
    "lhs_counts": "trees.grammar.binarize_rule",
    "balance": "trees.grammar.binarize_rule",
    "rule_occurrences": "trees.grammar.binarize",
    "file_counts_pmcfg": "trees.grammaroutput.pmcfg",
    "file_counts_rcg": "trees.grammaroutput.rcg",
    "file_counts_lopar": "trees.grammaroutput.lopar",
}


def _produce(ctx, w):
    """(grammar as produced for w['gramtype'], treebank grammar, lexicon) -- the way grammar.run does"""
    trees, gr = ctx.mod("trees"), ctx.mod("grammar")
    g, lex = {}, {}
    for spec in w["specs"]:
        gr.extract(tg.build(spec, trees), g, lex)
    if w["gramtype"] == "treebank":
        return g, g, lex
    reo = gr.reordering_none if w["gramtype"] == "leftright" else gr.reordering_optimal
    # a fresh extraction stays available for comparison: binarize must not be trusted to leave g alone
    bg = gr.binarize(g, reordering=reo, markov_opts=L.markov_opts(w.get("markov")))
    return bg, g, lex


def _treebank_numbers(specs):
    nodes, tags, roots, mass = {}, {}, {}, 0
    for spec in specs:
        for n in L.ref_nodes(spec):
            nodes[n["label"]] = nodes.get(n["label"], 0) + 1
            mass += max(1, len(n["children"]) - 1)
            if n["is_root"]:
                roots[n["label"]] = roots.get(n["label"], 0) + 1
        for _, _, p in L.ref_tokens(spec):
            tags[p] = tags.get(p, 0) + 1
    return nodes, tags, roots, mass


def _mass(w, specs_mass, n_nodes):
    return n_nodes if w["gramtype"] == "treebank" else specs_mass


def _check_counts_are_ints(pg):
    for (f, l, v), c in L.flat3(pg).items():
        if not isinstance(c, int) or isinstance(c, bool) or c < 1:
            return ("positive integer counts", {"rule": L.rule_str(f, l), "count": repr(c)})
    return None


def c_lhs_counts(ctx, w):
    pg, g, lex = _produce(ctx, w)
    bad = _check_counts_are_ints(pg)
    if bad:
        return bad
    nodes, tags, roots, mass = _treebank_numbers(w["specs"])
    got = {}
    total = 0
    for (f, l), c in L.flat(pg).items():
        total += c
        if not L.is_bin(f[0]):
            got[f[0]] = got.get(f[0], 0) + c
    if got != nodes:
        e, o = L.diff(nodes, got)
        return ({"rules_rewriting": e, "mass": _mass(w, mass, sum(nodes.values()))},
                {"rules_rewriting": o, "mass": total})
    return None


def c_balance(ctx, w):
    pg, g, lex = _produce(ctx, w)
    bad = _check_counts_are_ints(pg)
    if bad:
        return bad
    nodes, tags, roots, mass = _treebank_numbers(w["specs"])
    lhs, rhs, total = {}, {}, 0
    for (f, l), c in L.flat(pg).items():
        total += c
        lhs[f[0]] = lhs.get(f[0], 0) + c
        for x in f[1:]:
            rhs[x] = rhs.get(x, 0) + c
    lextag = {}
    for word in lex:
        for t in lex[word]:
            lextag[t] = lextag.get(t, 0) + lex[word][t]
    if lextag != tags:
        return ({"lexicon_tag_counts": tags}, {"lexicon_tag_counts": lextag})
    for x in sorted(set(lhs) | set(rhs) | set(lextag) | set(roots)):
        left = lhs.get(x, 0) + lextag.get(x, 0)
        right = rhs.get(x, 0) + roots.get(x, 0)
        if left != right:
            return ({"symbol": x, "equation": "rewritten + tagged == on right-hand sides + as root",
                     "mass": _mass(w, mass, sum(nodes.values()))},
                    {"symbol": x, "rewritten": lhs.get(x, 0), "tagged": lextag.get(x, 0),
                     "on_rhs": rhs.get(x, 0), "as_root": roots.get(x, 0), "mass": total})
    return None


def c_rule_occurrences(ctx, w):
    pg, g, lex = _produce(ctx, w)
    eg, _ = L.ref_extract(w["specs"])
    nodes, tags, roots, mass = _treebank_numbers(w["specs"])
    total = sum(L.flat(pg).values())
    exp_mass = _mass(w, mass, sum(nodes.values()))
    if w["gramtype"] == "treebank":
        a, b = L.flat3(eg), L.flat3(pg)
        if a != b:
            e, o = L.diff(a, b)
            return ({"occurrences": L.show(e), "mass": exp_mass}, {"occurrences": L.show(o), "mass": total})
        return None
    occ = L.flat(eg)
    exact = w["gramtype"] == "leftright"
    got = {}
    if w.get("markov") is None:
        try:
            un = L.unbinarize(pg)
        except L.LinError as e:
            raise Skip()             # judged by C07
        for (f, l), c in un.items():
            k = (f, l) if exact else L.canon_rule(f, l)
            got[k] = got.get(k, 0) + c
        want = occ
    else:
        # only the rules kept as they are can be identified without knowing the labels
        for (f, l), c in L.flat(pg).items():
            if any(L.is_bin(x) for x in f):
                continue
            k = (f, l) if exact else L.canon_rule(f, l)
            got[k] = got.get(k, 0) + c
        want = {k: c for k, c in occ.items() if len(k[0]) <= 3}
        got = {k: c for k, c in got.items() if len(k[0]) <= 3 or k in want}
        # (the last rule of a chain, X -> B C, has a binarization symbol as LHS and was skipped above)
    if got != want:
        e, o = L.diff(want, got)
        return ({"occurrences": L.show(e), "mass": exp_mass}, {"occurrences": L.show(o), "mass": total})
    return None


def _file_counts(ctx, w, fmt):
    go = ctx.mod("grammaroutput")
    pg, g, lex = _produce(ctx, w)
    want = L.flat(pg)
    if fmt == "lopar" and not all(len(l) == 1 for (_, l) in want):
        raise Skip()
    with L.tempdir() as d:
        dest = os.path.join(d, "g")
        getattr(go, fmt)(pg, lex, dest, "utf-8")
        if fmt == "lopar":
            with open(dest + ".gram", encoding="utf-8") as fh:
                got = L.decode_lopar_gram(fh.read())
            # only counts are judged here (C09 judges the order of the RHS in LoPar files)
            def bag(d):
                out = {}
                for f, c in d.items():
                    k = (f[0],) + tuple(sorted(f[1:]))
                    out[k] = out.get(k, 0) + c
                return out
            want_bag = {}
            for (f, l), c in want.items():      # two linearizations of one func are two rules
                k = (f[0],) + tuple(sorted(f[1:]))
                want_bag[k] = want_bag.get(k, 0) + c
            want = want_bag
            got = bag(got)
        else:
            with open(dest + "." + fmt, encoding="utf-8") as fh:
                got = (L.decode_pmcfg if fmt == "pmcfg" else L.decode_rcg)(fh.read())
    if got != want:
        e, o = L.diff(want, got)
        if fmt == "lopar":
            return ({L.rule_str(f): c for f, c in e.items()}, {L.rule_str(f): c for f, c in o.items()})
        return (L.show(e), L.show(o))
    return None


def c_file_counts_pmcfg(ctx, w):
    return _file_counts(ctx, w, "pmcfg")


def c_file_counts_rcg(ctx, w):
    for spec in w["specs"]:
        for s, _ in tg.spec_nodes(spec):
            if s["l"][-1].isdigit() or "(" in s["l"] or ")" in s["l"]:
                raise Skip()
    return _file_counts(ctx, w, "rcg")


def c_file_counts_lopar(ctx, w):
    return _file_counts(ctx, w, "lopar")


CLAUSES = {"lhs_counts": c_lhs_counts, "balance": c_balance, "rule_occurrences": c_rule_occurrences,
           "file_counts_pmcfg": c_file_counts_pmcfg, "file_counts_rcg": c_file_counts_rcg,
           "file_counts_lopar": c_file_counts_lopar}
CLAUSES = {k: L.judged(v) for k, v in CLAUSES.items()}   # exceptions of the code under test are violations


# ---------------------------------------------------------------------------
# treebanks
# ---------------------------------------------------------------------------

def _size(spec):
    return (len(tg.spec_leaves(spec)), len(tg.spec_nodes(spec)))


def tiny_trees(max_tokens):
    """every tree with <= max_tokens tokens, internal labels over {S, NP}, with 0..2 unary nodes
    inserted (n=1,2: two, also nested; n=3: one), root VROOT; plus the one-label chains S > S > .. > token"""
    out = []
    seen = set()

    def add(spec):
        k = tg.spec_str(spec)
        if k not in seen:
            seen.add(k)
            out.append(spec)
    for depth in (1, 2, 3):
        s = tg.leaf_spec(1, "w", "NN")
        for _ in range(depth):
            s = tg.node_spec("S", [s])
        s["sid"] = 1
        add(s)
    for n in range(1, max_tokens + 1):
        for sh in tg.shapes(n):
            k = L.count_internal(sh)
            labelings = [[]]
            for _ in range(k):
                labelings = [x + [lab] for x in labelings for lab in ("S", "NP")]
            for labs in labelings:
                base = L.label_shape(sh, labs, ["NN"], ["w"])
                add(base)
                firsts = []
                for p in L.child_paths(base):
                    for lab in ("NP", "S"):
                        t1 = L.wrap_unary(base, p, lab)
                        add(t1)
                        firsts.append(t1)
                if n <= 2:
                    for t1 in firsts:
                        for p in L.child_paths(t1):
                            for lab in ("NP", "S"):
                                add(L.wrap_unary(t1, p, lab))
    out.sort(key=_size)
    return out


def shape_trees(max_n, rng):
    out = []
    for n in range(3, max_n + 1):
        for sh in tg.shapes(n):
            k = L.count_internal(sh)
            out.append(L.label_shape(sh, ["S"] * k, ["NN"], ["w"], root="S"))
            out.append(L.label_shape(sh, [["NP", "S"][i % 2] for i in range(k)], ["NN", "VB"], ["w", "v"]))
    return out


def _discontinuous(spec):
    return any(tg.gap_degree_of_set([l["n"] for l in tg.spec_leaves(s)]) > 0 for s, _ in tg.spec_nodes(spec))


def continuous_twin(spec):
    """the same tree (labels, dominance, order of the children by their first token) with the tokens
    renumbered depth first, so that every node is continuous: every bare production of `spec` occurs
    in the twin as well, under ancestors with the same labels but fan-out 1"""
    twin = copy.deepcopy(spec)
    counter = [0]

    def rec(s):
        if tg.is_leaf_spec(s):
            counter[0] += 1
            return
        s["c"].sort(key=lambda c: min(l["n"] for l in tg.spec_leaves(c)))
        for c in s["c"]:
            rec(c)
    rec(twin)
    order = []

    def leaves(s):
        if tg.is_leaf_spec(s):
            order.append(s)
        else:
            for c in s["c"]:
                leaves(c)
    leaves(twin)
    for i, l in enumerate(order):
        l["n"] = i + 1
    return twin


# ---- wide flat constituents ---------------------------------------------------
# A Markov label only remembers the last h children (and v ancestors): inside ONE rule with five or
# more children whose labels repeat, two binarization steps can produce the same production.  The
# conservation equations of the property then still have to hold (the production counts twice).

WIDE_TAGS = ("NN", "PU", "VB")


def _patterns(k, letters):
    """every pattern of repetition of length k over <= `letters` symbols (restricted growth strings)"""
    out = [[0]]
    for _ in range(k - 1):
        out = [p + [a] for p in out for a in range(min(max(p) + 1, letters - 1) + 1)]
    return [tuple(p) for p in out]


def _periodic(k):
    """the patterns of length k with period 1, 2 or 3, and two with distinct ends"""
    bases = [(0,), (0, 1), (0, 1, 1), (0, 0, 1), (0, 1, 2)]
    out = [tuple(b[i % len(b)] for i in range(k)) for b in bases]
    out.append((1,) + (0,) * (k - 2) + (1,))
    out.append((1,) + (0,) * (k - 2) + (2,))
    res = []
    for p in out:
        if p not in res:
            res.append(p)
    return res


def _tokens(pattern, first):
    return [tg.leaf_spec(first + i, "w", WIDE_TAGS[a]) for i, a in enumerate(pattern)]


def _top(children):
    t = tg.node_spec("VROOT", children)
    t["sid"] = 1
    return t


def wide_top(pattern):
    """VROOT > NP > tokens"""
    return _top([tg.node_spec("NP", _tokens(pattern, 1))])


def wide_below_s(pattern):
    """VROOT > S > NP > tokens: the same rule NP -> .. under another parent"""
    return _top([tg.node_spec("S", [tg.node_spec("NP", _tokens(pattern, 1))])])


def wide_twice(pattern):
    """one tree with the rule NP -> .. below VROOT and below S"""
    k = len(pattern)
    return _top([tg.node_spec("NP", _tokens(pattern, 1)),
                 tg.node_spec("S", [tg.node_spec("NP", _tokens(pattern, k + 1))])])


def wide_gap(pattern, gaps):
    """VROOT > {NP > tokens, VB tokens}: the tokens at the 1-based positions `gaps` of the sentence are
    children of the root, the others the children of a discontinuous NP"""
    n = len(pattern) + len(gaps)
    inner = [i for i in range(1, n + 1) if i not in gaps]
    kids = [tg.leaf_spec(i, "w", WIDE_TAGS[a]) for i, a in zip(inner, pattern)]
    return _top([tg.node_spec("NP", kids)] + [tg.leaf_spec(i, "v", "VB") for i in gaps])


def coordination(k, commas, parents=()):
    """NP -> NP (PU) NP (PU) .. NP with k conjuncts NP > NN, below the chain of `parents`"""
    kids, n = [], 0
    for i in range(k):
        if i and commas:
            n += 1
            kids.append(tg.leaf_spec(n, ",", "PU"))
        n += 1
        kids.append(tg.node_spec("NP", [tg.leaf_spec(n, "w", "NN")]))
    node = tg.node_spec("NP", kids)
    for lab in reversed(parents):
        node = tg.node_spec(lab, [node])
    return _top([node])


def wide_treebanks(ctx):
    """(repeats, treebank): repeats = some rule occurs repeatedly / under different parents"""
    kmin, kmax = BOUNDS(ctx)["wide_children"]
    every = _patterns(kmin, BOUNDS(ctx)["wide_all_patterns_tags"])
    periodic = [p for k in range(kmin, kmax + 1) for p in _periodic(k)]
    for p in every + [p for p in periodic if p not in every]:
        yield False, [wide_top(p)]
    yield False, [coordination(4, True)]
    yield False, [coordination(5, False)]
    for p in _periodic(kmin)[:2] + _periodic(kmin + 1)[:1]:
        yield False, [wide_gap(p, (3,))]
        yield False, [wide_gap(p, (2, 5))]
    # the quantifier of the property: the same rule repeatedly and under different parents
    for k in range(kmin, kmax + 1):
        for p in _periodic(k)[:3]:
            yield True, [wide_top(p), wide_below_s(p), wide_below_s(p)]
    for p in _periodic(kmin)[:3]:
        yield True, [wide_twice(p)]
    yield True, [coordination(4, True, ("S",)), coordination(4, True, ("S", "VP")),
                 coordination(4, True, ("S", "VP"))]
    g = wide_gap((0, 1, 0, 1, 0), (3,))
    yield True, [g, continuous_twin(g), g]


def treebanks(ctx):
    b = BOUNDS(ctx)
    rng = ctx.rng
    tiny = tiny_trees(b["tiny_tokens"])
    big = shape_trees(b["shapes_n"], rng)
    for t in tiny:
        yield True, [t]
    # "a rule observed in several vertical contexts contributes the sum": contexts that differ only
    # in the fan-out of an ancestor (they fall together under nofanout) -- every discontinuous tiny
    # tree with its continuous twin under every configuration (the other order and unequal multiplicities
    # under the deterministic and a rotating sample of the Markov configurations)
    for t in tiny:
        if _discontinuous(t):
            twin = continuous_twin(t)
            yield True, [t, twin]
            yield False, [twin, t]
            yield False, [t, twin, t]
    k = b["small_pairs_from"]
    for i in range(min(k, len(tiny))):
        for j in range(i, min(k, len(tiny))):
            yield True, [tiny[i], tiny[j]]
    for t in big:
        yield False, [t]
        yield False, [t, t]
        if _discontinuous(t):
            yield False, [t, continuous_twin(t)]
    pool = tiny + big
    for _ in range(b["seeded_tuples"]):
        n = rng.choice((2, 3))
        yield False, [rng.choice(pool) for _ in range(n)]
    for _ in range(b["random_treebanks"]):
        n = rng.randint(1, 3)
        tb = L.random_specs(rng, n, 2, b["random_max_n"], p_flat=0.55, unary_p=0.25, shuffle=True,
                            labels=["S", "NP"], pos=["NN", "VB"], words=["a", "b", "C"])
        if rng.random() < 0.5:
            tb.append(tb[0])
        yield False, tb[:3]
    # last, so that the enumeration above is what it was before this family existed
    for repeats, tb in wide_treebanks(ctx):
        yield ("all" if repeats else "all-wide"), tb


def configs(ctx, every=False):
    ms = L.covering_markov() if ctx.quick and not every else L.all_markov()
    out = [("treebank", None)]
    for gt in ("leftright", "optimal"):
        out.append((gt, None))
        for m in ms:
            out.append((gt, m))
    return out


def _nontrivial(specs):
    eg, _ = L.ref_extract(specs)
    return (any(len(eg[f][l]) > 1 or sum(eg[f][l].values()) > 1 for f in eg for l in eg[f])
            or any(len(f) >= 6 and len(set(f[1:])) < len(f) - 1 for f in eg))


def generate(ctx):
    """the smallest treebanks meet every configuration (of the covering set in tier quick); the larger
    ones the deterministic configurations and K Markov configurations each, dealt round-robin; the
    treebanks with wide flat constituents all 32 Markov configurations in every tier"""
    cfgs = configs(ctx)
    all_cfgs = configs(ctx, every=True)
    markov_cfgs = [c for c in cfgs if c[1] is not None]
    plain_cfgs = [c for c in cfgs if c[1] is None]
    per = BOUNDS(ctx)["markov_per_larger_treebank"]
    mi = 0
    for ti, (full, tb) in enumerate(treebanks(ctx)):
        nt = _nontrivial(tb)
        name = " ".join(tg.spec_str(s) for s in tb)
        if full in ("all", "all-wide"):
            these = all_cfgs
        elif full:
            these = cfgs
        else:
            these = plain_cfgs + [markov_cfgs[(mi + j) % len(markov_cfgs)] for j in range(per)]
            mi += per
        for gt, m in these:
            w = {"specs": tb, "gramtype": gt, "markov": m}
            key = "%s %s/%s" % (name, gt, L.markov_name(m)) if nt else None
            for c in ("lhs_counts", "balance", "rule_occurrences"):
                if c == "rule_occurrences" and full == "all-wide" and m is not None:
                    # one tree, no rule twice: under Markov labels this clause could only look at
                    # the rules with at most two children, each seen once
                    continue
                yield c, w, key
            if m is None or (ti % 7 == 0 and full != "all-wide"):
                for c in ("file_counts_pmcfg", "file_counts_rcg", "file_counts_lopar"):
                    yield c, w, key


def classify(clause, witness, expected, observed):
    """F14 has two faces; anything else stays unclassified (reported as new)"""
    m = witness.get("markov")
    if clause not in ("lhs_counts", "balance", "rule_occurrences"):
        return None
    if m is None or witness.get("gramtype") == "treebank":
        return None
    if m.get("nofanout"):
        # binarize replaces the count of a (rule, context) entry by the number of entries of the whole
        # grammar whose context is the same once fan-outs are stripped.  Is that number wrong here?
        eg, _ = L.ref_extract(witness["specs"])
        strip = lambda v: tuple(x.rstrip("0123456789") for x in v)
        tally = {}
        for (f, l, v) in L.flat3(eg):
            tally[strip(v)] = tally.get(strip(v), 0) + 1
        if any(c != tally[strip(v)] for (f, l, v), c in L.flat3(eg).items()):
            return "nofanout-count-replaced-by-context-tally"
        # every entry happens to get its true count: what is left is the overwriting below
        return "markov-count-assigned-not-summed"
    try:
        if observed["mass"] < expected["mass"]:
            # binarize_rule assigns: a (rule, linearization) key emitted again overwrites the earlier count
            return "markov-count-assigned-not-summed"
    except (TypeError, KeyError):
        pass
    return None


def exhaustive(ctx):
    return False
