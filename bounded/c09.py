"""C09 bounded stand-in: written grammar and lexicon files decode to exactly
the grammar in memory.

The grammar in memory is snapshotted before the writer runs (the writers add
the lexical rules to their argument when lex_in_grammar is given).  RCG files
are re-read with the tool's own reader *and* with an independent decoder;
PMCFG and LoPar files with independent decoders (lib_grammar, written from the
format).  The CLI clause writes its input files with an encoder of our own, so
it judges reader + driver only.
"""
import copy
import os
import subprocess
import sys
from collections import Counter
from vlib import tg
from bounded.common import Skip
from bounded import lib_grammar as L

RULE = ("grammars extracted from seeded treebanks (fan-out > 1, counts > 1, rules under several vertical "
        "contexts, shared linearization sequences) and batches of enumerated canonical rules, raw and binarized "
        "(leftright / optimal; deterministic and Markovized); lexicons with ambiguous words, capitalised / "
        "uncapitalised / non-ASCII / punctuation words; encodings utf-8 and latin-1 (skipped when not "
        "representable); lex_in_grammar on/off; API and CLI.  Non-trivial = grammar with a count > 1 or "
        "fan-out > 1 (key = grammar + configuration)")


def BOUNDS(ctx):
    if ctx.quick:
        return {"treebanks": 80, "max_n": 9, "rule_batches": 20, "batch": 20, "R": 4, "V": 6,
                "cli_runs": 24, "strip_len": 4, "markov": "v1h2, v0h0, v2h1nf per grammar type"}
    return {"treebanks": 400, "max_n": 12, "rule_batches": 170, "batch": 20, "R": 4, "V": 6,
            "cli_runs": 120, "strip_len": 5, "markov": "all 32 round-robin, 4 per treebank"}


SITES = {
    "rcg_roundtrip": "trees.grammarinput.rcg",
    "rcg_decode": "trees.grammaroutput.rcg",
    "pmcfg_decode": "trees.grammaroutput.pmcfg",
    "lopar_decode": "trees.grammaroutput.lopar",
    "lopar_refuses_noncf": "trees.grammaroutput.lopar",
    "lex_in_grammar_pmcfg": "trees.grammaroutput.pmcfg",
    "lex_in_grammar_rcg": "trees.grammaroutput.rcg",
    "cli_grammar_input": "trees.grammar.run",
    "strip_fanout": "trees.grammarconst.label_strip_fanout",
}

WORDS = ["der", "Hund", "Der", "bellt", "Haus", "Äpfel", "über", "été", ",", ".", "-",
         "''", "o'k", "a&b", "1999", "中文", "Жук", "x:y"]
WORDS_PAREN = ["(", ")", "(x)"]


def _memory(ctx, w):
    """the grammar and lexicon in memory for this witness"""
    gr, trees = ctx.mod("grammar"), ctx.mod("trees")
    if "specs" in w:
        g, lex = {}, {}
        for spec in w["specs"]:
            gr.extract(tg.build(spec, trees), g, lex)
    else:
        g = L.rules_from_json(w["rules"])
        lex = {word: Counter(d) for word, d in w["lex"].items()}
    if w.get("gramtype", "treebank") != "treebank":
        reo = gr.reordering_none if w["gramtype"] == "leftright" else gr.reordering_optimal
        g = gr.binarize(g, reordering=reo, markov_opts=L.markov_opts(w.get("markov")))
    return g, lex


def _symbols(g):
    return set(x for f in g for x in f)


def _encodable(strings, enc):
    try:
        for s in strings:
            s.encode(enc)
    except UnicodeEncodeError:
        return False
    return True


def _rcg_label_ok(x):
    return x != "" and "(" not in x and ")" not in x and not x[-1].isdigit()


def _domain(w, g, lex, fmt, lig=False):
    """skip what the format cannot carry (Appendix A)"""
    syms = _symbols(g)
    words = set(lex)
    tags = set(t for word in lex for t in lex[word])
    enc = w.get("enc", "utf-8")
    if not _encodable(syms | words | tags, enc):
        raise Skip()
    if fmt == "rcg":
        if not all(_rcg_label_ok(x) for x in syms):
            raise Skip()
    if lig:
        # words become symbols of the grammar file: they must be distinguishable from nonterminals,
        # i.e. no word is also a label, and every label is rewritten by a rule or tags a word
        # (always so in a grammar read off a treebank)
        if (words & (syms | tags)) or any(L.is_bin(x) for x in words):
            raise Skip()
        lhs = set(f[0] for f in g)
        if any(x not in lhs and x not in tags for f in g for x in f[1:]):
            raise Skip()
        if fmt == "rcg" and not all("(" not in x and ")" not in x for x in words | tags):
            raise Skip()


def _read(path, enc):
    with open(path, encoding=enc, newline="") as fh:
        return fh.read()


def _cmp_rules(want, got):
    if want != got:
        e, o = L.diff(want, got)
        return ({"rules": L.show(e)}, {"rules": L.show(o)})
    return None


def _cmp_lex(want, got):
    if want != got:
        e, o = L.diff({(w, t): c for w in want for t, c in want[w].items()},
                      {(w, t): c for w in got for t, c in got[w].items()})
        return ({"lexicon": {"%s/%s" % k: c for k, c in e.items()}},
                {"lexicon": {"%s/%s" % k: c for k, c in o.items()}})
    return None


def c_rcg_roundtrip(ctx, w):
    go, gi = ctx.mod("grammaroutput"), ctx.mod("grammarinput")
    g, lex = _memory(ctx, w)
    _domain(w, g, lex, "rcg")
    want, wlex = L.flat(g), L.plain_lex(lex)
    enc = w.get("enc", "utf-8")
    with L.tempdir() as d:
        dest = os.path.join(d, "g")
        go.rcg(copy.deepcopy(g), copy.deepcopy(lex), dest, enc)
        try:
            res = gi.rcg(dest, enc)
        except Exception as e:
            return ({"rules": len(want), "words": len(wlex)}, {"reader_raised": "%s: %s" % (type(e).__name__, str(e)[:160])})
    if not (isinstance(res, tuple) and len(res) == 2):
        return ("(grammar, lexicon)", repr(type(res)))
    rg, rlex = res
    return _cmp_rules(want, L.flat(rg)) or _cmp_lex(wlex, L.plain_lex(rlex))


def c_rcg_decode(ctx, w):
    go = ctx.mod("grammaroutput")
    g, lex = _memory(ctx, w)
    _domain(w, g, lex, "rcg")
    want, wlex = L.flat(g), L.plain_lex(lex)
    enc = w.get("enc", "utf-8")
    with L.tempdir() as d:
        dest = os.path.join(d, "g")
        go.rcg(copy.deepcopy(g), copy.deepcopy(lex), dest, enc)
        try:
            got = L.decode_rcg(_read(dest + ".rcg", enc))
            glex = L.decode_lex(_read(dest + ".lex", enc))
        except L.DecodeError as e:
            return ("well-formed RCG and lexicon files", str(e))
    return _cmp_rules(want, got) or _cmp_lex(wlex, glex)


def c_pmcfg_decode(ctx, w):
    go = ctx.mod("grammaroutput")
    g, lex = _memory(ctx, w)
    _domain(w, g, lex, "pmcfg")
    want, wlex = L.flat(g), L.plain_lex(lex)
    enc = w.get("enc", "utf-8")
    with L.tempdir() as d:
        dest = os.path.join(d, "g")
        go.pmcfg(copy.deepcopy(g), copy.deepcopy(lex), dest, enc)
        try:
            got = L.decode_pmcfg(_read(dest + ".pmcfg", enc))
            glex = L.decode_lex(_read(dest + ".lex", enc))
        except L.DecodeError as e:
            return ("well-formed PMCFG and lexicon files", str(e))
    return _cmp_rules(want, got) or _cmp_lex(wlex, glex)


def _is_cap(word):
    c = word[0]
    return c.upper() == c and c.lower() != c


def c_lopar_decode(ctx, w):
    go = ctx.mod("grammaroutput")
    g, lex = _memory(ctx, w)
    _domain(w, g, lex, "lopar")
    want = L.flat(g)
    if not all(len(l) == 1 for (_, l) in want):
        raise Skip()            # refusal is the other clause
    wlex = L.plain_lex(lex)
    enc = w.get("enc", "utf-8")
    with L.tempdir() as d:
        dest = os.path.join(d, "g")
        go.lopar(copy.deepcopy(g), copy.deepcopy(lex), dest, enc)
        try:
            gram = L.decode_lopar_gram(_read(dest + ".gram", enc))
            glex = L.decode_lex(_read(dest + ".lex", enc))
            start = L.decode_pairs(_read(dest + ".start", enc))
            oc = L.decode_pairs(_read(dest + ".oc", enc))
            OC = L.decode_pairs(_read(dest + ".OC", enc))
        except (L.DecodeError, IOError) as e:
            return ("five well-formed LoPar files", "%s: %s" % (type(e).__name__, e))
    # The format has no linearization: a line "c A B C" *is* the rule A -> B C with yield B then C.
    # So the file carries each rule up to the storage order of its RHS: compare canonical forms
    # (RHS in order of the linearization), in which a context-free rule has exactly one linearization.
    got = {(f, L.cf_lin(len(f) - 1)): c for f, c in gram.items()}
    wantc = {}
    for (f, l), c in want.items():
        k = L.canon_rule(f, l)
        wantc[k] = wantc.get(k, 0) + c
    if wantc != got:
        e, o = L.diff(wantc, got)
        def bag(d):
            out = {}
            for (f, _), c in d.items():
                k = (f[0],) + tuple(sorted(f[1:]))
                out[k] = out.get(k, 0) + c
            return out
        order_only = bag(e) == bag(o)
        return ({"rules_in_yield_order": L.show(e)}, {"rules_in_yield_order": L.show(o),
                                                      "same_up_to_rhs_order": order_only})
    bad = _cmp_lex(wlex, glex)
    if bad:
        return bad
    lhs = set(f[0] for (f, _) in want)
    rhs = set(x for (f, _) in want for x in f[1:])
    estart = {s: sum(c for (f, _), c in want.items() if f[0] == s) for s in lhs - rhs}
    if start != estart:
        return ({"start": estart}, {"start": start})
    eoc, eOC = {}, {}
    for word in wlex:
        tgt = eOC if _is_cap(word) else eoc
        for t, c in wlex[word].items():
            tgt[t] = tgt.get(t, 0) + c
    if oc != eoc or OC != eOC:
        return ({"oc": eoc, "OC": eOC}, {"oc": oc, "OC": OC})
    return None


def c_lopar_refuses_noncf(ctx, w):
    go = ctx.mod("grammaroutput")
    g, lex = _memory(ctx, w)
    _domain(w, g, lex, "lopar")
    if all(len(l) == 1 for (_, l) in L.flat(g)):
        raise Skip()
    with L.tempdir() as d:
        dest = os.path.join(d, "g")
        try:
            go.lopar(copy.deepcopy(g), copy.deepcopy(lex), dest, w.get("enc", "utf-8"))
        except ValueError:
            return None
        except Exception as e:
            return ("ValueError", "%s: %s" % (type(e).__name__, e))
        return ("ValueError for a grammar with fan-out > 1", "wrote " + ",".join(sorted(os.listdir(d))))


def _lig(ctx, w, fmt):
    go = ctx.mod("grammaroutput")
    g, lex = _memory(ctx, w)
    _domain(w, g, lex, fmt, lig=True)
    want, wlex = L.flat(g), L.plain_lex(lex)
    enc = w.get("enc", "utf-8")
    with L.tempdir() as d:
        dest = os.path.join(d, "g")
        getattr(go, fmt)(copy.deepcopy(g), copy.deepcopy(lex), dest, enc, lex_in_grammar=True)
        try:
            allr = (L.decode_pmcfg if fmt == "pmcfg" else L.decode_rcg)(_read(dest + "." + fmt, enc))
            got, glex = L.split_lexical_rules(allr)
        except L.DecodeError as e:
            return ("a well-formed grammar file with lexical rules", str(e))
    return _cmp_rules(want, got) or _cmp_lex(wlex, glex)


def c_lex_in_grammar_pmcfg(ctx, w):
    return _lig(ctx, w, "pmcfg")


def c_lex_in_grammar_rcg(ctx, w):
    return _lig(ctx, w, "rcg")


def c_cli_grammar_input(ctx, w):
    """`treetools grammar SRC DEST T --src-format rcg --dest-format rcg` on a grammar file"""
    if w.get("gramtype") not in ("treebank", "leftright") or w.get("markov") is not None:
        raise Skip()
    # the source grammar is the *unbinarized* grammar of the witness, as {(func, lin): count}
    src_w = dict(w, gramtype="treebank")
    g, lex = _memory(ctx, src_w)
    _domain(w, g, lex, "rcg")
    want, wlex = L.flat(g), L.plain_lex(lex)
    with L.tempdir() as d:
        with open(os.path.join(d, "src.rcg"), "w", encoding="utf-8", newline="") as fh:
            fh.write(L.encode_rcg(want))
        with open(os.path.join(d, "src.lex"), "w", encoding="utf-8", newline="") as fh:
            fh.write(L.encode_lex(wlex))
        env = dict(os.environ, PYTHONPATH=os.path.abspath(ctx.repo), PYTHONDONTWRITEBYTECODE="1",
                   PYTHONIOENCODING="utf-8")
        cmd = [sys.executable, os.path.join(os.path.abspath(ctx.repo), "treetools"), "grammar", "src", "dest",
               w["gramtype"], "--src-format", "rcg", "--dest-format", "rcg"]
        p = subprocess.run(cmd, cwd=d, env=env, capture_output=True, text=True, timeout=120)
        if p.returncode != 0:
            return ("exit status 0", {"exit": p.returncode, "stderr": p.stderr[-400:]})
        try:
            got = L.decode_rcg(_read(os.path.join(d, "dest.rcg"), "utf-8"))
            glex = L.decode_lex(_read(os.path.join(d, "dest.lex"), "utf-8"))
        except (L.DecodeError, IOError) as e:
            return ("dest.rcg and dest.lex", "%s: %s" % (type(e).__name__, e))
    if w["gramtype"] == "leftright":
        try:
            bg = {}
            for (f, l), c in got.items():
                bg.setdefault(f, {})[l] = {L.VERT: c}
            got = L.unbinarize(bg) if bg else {}
        except L.LinError as e:
            return ("a binarized version of the source grammar", str(e))
    if want != got or wlex != glex:
        return ({"rules": len(want), "rule_mass": sum(want.values()), "words": len(wlex)},
                {"rules": len(got), "rule_mass": sum(got.values()), "words": len(glex),
                 "difference": [L.show(x) for x in L.diff(want, got)] if got else "empty grammar"})
    return None


def c_strip_fanout(ctx, s):
    gc = ctx.mod("grammarconst")
    if s == "" or s.isdigit():
        # outside the domain: the argument is always "label + fan-out"; a label consisting of digits only
        # cannot be told from its fan-out (C09 excludes labels ending in a digit for RCG, Appendix A)
        raise Skip()
    exp = s
    while exp != "" and exp[-1].isdigit():
        exp = exp[:-1]
    try:
        got = gc.label_strip_fanout(s)
    except Exception as e:
        return (exp, "%s: %s" % (type(e).__name__, e))
    if got != exp:
        return (exp, got)
    return None


CLAUSES = {"rcg_roundtrip": c_rcg_roundtrip, "rcg_decode": c_rcg_decode, "pmcfg_decode": c_pmcfg_decode,
           "lopar_decode": c_lopar_decode, "lopar_refuses_noncf": c_lopar_refuses_noncf,
           "lex_in_grammar_pmcfg": c_lex_in_grammar_pmcfg, "lex_in_grammar_rcg": c_lex_in_grammar_rcg,
           "cli_grammar_input": c_cli_grammar_input, "strip_fanout": c_strip_fanout}
CLAUSES = {k: L.judged(v) for k, v in CLAUSES.items()}

FILE_CLAUSES = ["rcg_roundtrip", "rcg_decode", "pmcfg_decode", "lopar_decode", "lopar_refuses_noncf",
                "lex_in_grammar_pmcfg", "lex_in_grammar_rcg"]


# ---------------------------------------------------------------------------
# generation
# ---------------------------------------------------------------------------

def _treebank(rng, b, i):
    """seeded treebank; i steers continuity, alphabet and word pool"""
    k = rng.randint(1, 3)
    discont = 0.0 if i % 3 == 0 else 0.5          # a third of the grammars context-free (LoPar)
    labels = ["S", "NP", "VP"]
    pos = ["NN", "VB", "$,", "ART"]
    words = list(WORDS)
    if i % 4 == 1:
        words = [x for x in words if _encodable([x], "latin-1")]
    if i % 5 == 4:
        words = words + WORDS_PAREN
    if i % 11 == 10:
        pos = pos + ["$("]
    if i % 13 == 12:
        labels = labels + ["NP2"]
    tb = L.random_specs(rng, k, 1, b["max_n"], p_flat=0.5, discont=discont, unary_p=0.25, shuffle=True,
                        labels=labels, pos=pos, words=words)
    if rng.random() < 0.5:
        tb.append(tb[0])
    return tb[:3]


def _lexicon_for(rng):
    """ambiguous words; every preterminal of the rule batches (B, C, NN, VB) tags some word"""
    lex = {}
    tags = ["B", "C", "NN", "VB"]
    for n, word in enumerate(rng.sample(WORDS, 6)):
        ts = [tags[n % 4]] + rng.sample(["NN", "VB", "$,", "ART"], rng.randint(0, 1))
        lex[word] = {t: rng.randint(1, 3) for t in ts}
    return lex


def _nt_key(tag, cfg):
    return "%s %s" % (tag, cfg)


def generate(ctx):
    b = BOUNDS(ctx)
    rng = ctx.rng
    allm = L.all_markov()
    mi = 0
    cli_left = b["cli_runs"]
    # strings for label_strip_fanout: all strings up to length n over a small alphabet
    import itertools
    alphabet = ["a", "B", "1", "2", "-", "@"]
    for n in range(1, b["strip_len"] + 1):
        for t in itertools.product(alphabet, repeat=n):
            s = "".join(t)
            yield "strip_fanout", s, (s if s[-1].isdigit() else None)
    for s in ["NP1", "VP12", "S", "$,", "@^S1-NP1X", "123", "7", "x²", "٣"]:
        yield "strip_fanout", s, s
    # grammars of treebanks: a few minimal ones first (small witnesses), then seeded ones
    def leaf(n, word, pos):
        return tg.leaf_spec(n, word, pos)
    tiny = [
        [dict(tg.node_spec("VROOT", [leaf(1, "über", "NN")]), sid=1)],
        [dict(tg.node_spec("VROOT", [leaf(1, "der", "ART"), leaf(2, "Hund", "NN"), leaf(3, "bellt", "VB")]), sid=1)],
        [dict(tg.node_spec("VROOT", [tg.node_spec("S", [leaf(1, "Der", "ART"), leaf(3, "der", "NN")]),
                                     leaf(2, "bellt", "VB")]), sid=1)],
        [dict(tg.node_spec("VROOT", [leaf(1, "Hund", "NN"), leaf(2, "Hund", "VB"), leaf(3, "中文", "NN"),
                                     leaf(4, ".", "$,")]), sid=1)] * 2,
    ]
    for i in range(-len(tiny), b["treebanks"]):
        tb = tiny[i + len(tiny)] if i < 0 else _treebank(rng, b, i)
        name = " ".join(tg.spec_str(s) for s in tb)
        if ctx.quick:
            ms = [{"v": 1, "h": 2, "nofanout": False}, {"v": 0, "h": 0, "nofanout": False},
                  {"v": 2, "h": 1, "nofanout": True}]
        else:
            ms = [allm[(mi + j) % len(allm)] for j in range(4)]
            mi += 4
        cfgs = [("treebank", None), ("leftright", None), ("optimal", None)]
        cfgs += [("leftright", m) for m in ms[:2]] + [("optimal", m) for m in ms[2:]]
        for gt, m in cfgs:
            for enc in ("utf-8", "latin-1"):
                if enc == "latin-1" and (m is not None or gt == "optimal"):
                    continue
                w = {"specs": tb, "gramtype": gt, "markov": m, "enc": enc}
                key = _nt_key(name, "%s/%s/%s" % (gt, L.markov_name(m), enc))
                for c in FILE_CLAUSES:
                    yield c, w, key
        if cli_left > 0:
            for gt in ("treebank", "leftright"):
                cli_left -= 1
                yield "cli_grammar_input", {"specs": tb, "gramtype": gt, "markov": None}, name + " " + gt
    # batches of enumerated rules (fan-out up to V, shared sequences, counts > 1, several contexts)
    lins = list(L.enum_lins(b["R"], b["V"]))
    rng.shuffle(lins)
    for bi in range(b["rule_batches"]):
        chunk = lins[bi * b["batch"]:(bi + 1) * b["batch"]]
        if not chunk:
            break
        rules = []
        for n, lin in enumerate(chunk):
            r = L.lin_rank(lin)
            func = [["A", "S"][n % 2]] + [["B", "C", "NN", "VB"][(n + j) % 4] for j in range(r)]
            verts = [[["%s%d" % (func[0], len(lin)), "P1"], rng.randint(1, 4)]]
            if n % 3 == 0:
                verts.append([["%s%d" % (func[0], len(lin)), "Q2", "P1"], rng.randint(1, 4)])
            rules.append([func, L.lin_to_json(lin), verts])
        w0 = {"rules": rules, "lex": _lexicon_for(rng)}
        for gt in ("treebank", "leftright"):
            for enc in ("utf-8", "latin-1"):
                w = dict(w0, gramtype=gt, markov=None, enc=enc)
                key = "batch%d %s %s" % (bi, gt, enc)
                for c in FILE_CLAUSES:
                    yield c, w, key
        if cli_left > 0:
            cli_left -= 1
            yield "cli_grammar_input", dict(w0, gramtype="leftright", markov=None), "batch%d cli" % bi


def classify(clause, witness, expected, observed):
    if clause == "strip_fanout":
        if isinstance(witness, str) and witness.isdigit() and isinstance(observed, str) \
                and observed.startswith("IndexError") and expected == "":
            return "all-digit-label-indexerror"
        return None
    if clause == "cli_grammar_input":
        if isinstance(observed, dict) and observed.get("rules") == 0 and observed.get("words") == 0 \
                and observed.get("difference") == "empty grammar":
            return "cli-discards-read-grammar"
        return None
    if clause == "rcg_roundtrip":
        if witness.get("enc", "utf-8") != "utf-8" and isinstance(observed, dict):
            if "UnicodeDecodeError" in str(observed.get("reader_raised", "")):
                return "reader-ignores-src-enc"
            if "lexicon" in observed and any(ord(ch) > 127 for k in expected.get("lexicon", {}) for ch in k):
                return "reader-ignores-src-enc"     # decoded with the wrong codec without an error
        return None
    if clause == "lopar_decode":
        if isinstance(observed, dict) and observed.get("same_up_to_rhs_order") is True:
            return "lopar-rhs-in-storage-order-not-yield-order"
        return None
    return None


def exhaustive(ctx):
    return False
