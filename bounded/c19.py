"""C19 bounded stand-in: the navigation API of trees/trees.py and the export
node numbering of trees/treeoutput.py against a set-based model of the tree.

Every expectation is computed from the links of the tree that `tg.build`
made from the spec (`.children`, `.parent`, `data['num']`) by the reference
model `lib_nav.Nav`; none of the functions under test is used for it.
"""
from vlib import tg
from bounded.common import Skip
from bounded import lib_nav as L

RULE = ("all tree shapes with n<=N tokens (every internal node >=2 children, discontinuous shapes "
        "included); for n<=P every combination of permutations of all stored child lists, above "
        "that every rotation, the reversal and one seeded shuffle; each shape also with unary "
        "constituents above tokens / above inner nodes / chains of two and a unary root; plus seeded "
        "random trees up to 14 tokens with unary nodes and shuffled child lists. Each (clause, tree) "
        "is one evaluation in which the clause is checked for all nodes (lca: all ordered pairs of "
        "nodes). non-trivial = distinct tree with a child list stored out of token order, a "
        "discontinuous node or a unary node")


def BOUNDS(ctx):
    return {"exhaustive_shapes_n": 5 if ctx.quick else 6,
            "all_child_permutations_n": 4 if ctx.quick else 5,
            "random_trees": 250 if ctx.quick else 5000, "random_max_n": 14}


SITES = {
    "ghost_axioms": "contracts.common.wf_theory",
    "children_order": "trees.trees.children",
    "terminals_order": "trees.trees.terminals",
    "preorder": "trees.trees.preorder",
    "postorder": "trees.trees.postorder",
    "right_sibling": "trees.trees.right_sibling",
    "left_sibling": "trees.trees.left_sibling",
    "siblings_inverse": "trees.trees.left_sibling",
    "dominance": "trees.trees.dominance",
    "lca": "trees.trees.lca",
    "levels": "trees.trees.levels",
    "export_numbering": "trees.treeoutput.compute_export_numbering",
    "levels_after_change": "trees.trees.levels",
}


def _setup(ctx, spec):
    trees = ctx.mod("trees")
    t = tg.build(spec, trees)
    return trees, t, L.Nav(t)


def c_children_order(ctx, spec):
    trees, t, nav = _setup(ctx, spec)
    for n in nav.nodes:
        exp = nav.kids(n)
        got = trees.children(n)
        if not isinstance(got, list) or not L.same_seq(got, exp):
            return ("children(%s) == %s (ordered by leftmost token)" % (nav.nm(n), nav.nms(exp)),
                    nav.nms(got))
    return None


def c_terminals_order(ctx, spec):
    trees, t, nav = _setup(ctx, spec)
    for n in nav.nodes:
        exp = nav.toks(n)
        got = trees.terminals(n)
        if not L.same_seq(list(got), exp):
            return ("terminals(%s) == %s (token order)" % (nav.nm(n), nav.nms(exp)), nav.nms(got))
    return None


def _traversal(ctx, spec, which):
    trees, t, nav = _setup(ctx, spec)
    fn = getattr(trees, which)
    for n in nav.nodes:
        got = list(fn(n))
        sub = nav.sub(n)
        # every node exactly once (and nothing else)
        ids = [id(x) for x in got]
        if sorted(ids) != sorted(id(x) for x in sub):
            return ("%s(%s) visits every node below it exactly once: %s"
                    % (which, nav.nm(n), sorted(nav.nms(sub))), nav.nms(got))
        pos = dict((id(x), i) for i, x in enumerate(got))
        for x in sub:
            # ancestors before (after) descendants
            for c in x.children:
                ok = pos[id(x)] < pos[id(c)] if which == "preorder" else pos[id(x)] > pos[id(c)]
                if not ok:
                    return ("%s(%s): %s %s its child %s"
                            % (which, nav.nm(n), nav.nm(x),
                               "before" if which == "preorder" else "after", nav.nm(c)),
                            nav.nms(got))
            # siblings (with everything below them) left to right
            ks = nav.kids(x)
            for a, b in zip(ks, ks[1:]):
                last_a = max(pos[id(y)] for y in nav.sub(a))
                first_b = min(pos[id(y)] for y in nav.sub(b))
                if not last_a < first_b:
                    return ("%s(%s): subtree of %s completely before subtree of its right sibling %s"
                            % (which, nav.nm(n), nav.nm(a), nav.nm(b)), nav.nms(got))
    return None


def c_preorder(ctx, spec):
    return _traversal(ctx, spec, "preorder")


def c_postorder(ctx, spec):
    return _traversal(ctx, spec, "postorder")


def _neighbour(nav, n, delta):
    if n.parent is None:
        return None
    ks = nav.kids(n.parent)
    k = [i for i, x in enumerate(ks) if x is n][0]
    j = k + delta
    return ks[j] if 0 <= j < len(ks) else None


def c_right_sibling(ctx, spec):
    trees, t, nav = _setup(ctx, spec)
    for n in nav.nodes:
        exp = _neighbour(nav, n, +1)
        got = trees.right_sibling(n)
        if got is not exp:
            return ("right_sibling(%s) is %s" % (nav.nm(n), nav.nm(exp)), nav.nm(got))
    return None


def c_left_sibling(ctx, spec):
    trees, t, nav = _setup(ctx, spec)
    for n in nav.nodes:
        exp = _neighbour(nav, n, -1)
        got = trees.left_sibling(n)
        if got is not exp:
            return ("left_sibling(%s) is %s" % (nav.nm(n), nav.nm(exp)), nav.nm(got))
    return None


def c_siblings_inverse(ctx, spec):
    """stated on the two real functions only: each undoes the other, and a node
    has no right (left) sibling exactly when it is the last (first) child or the root"""
    trees, t, nav = _setup(ctx, spec)
    for n in nav.nodes:
        r = trees.right_sibling(n)
        l = trees.left_sibling(n)
        if r is not None and trees.left_sibling(r) is not n:
            return ("left_sibling(right_sibling(%s)) is %s" % (nav.nm(n), nav.nm(n)),
                    nav.nm(trees.left_sibling(r)))
        if l is not None and trees.right_sibling(l) is not n:
            return ("right_sibling(left_sibling(%s)) is %s" % (nav.nm(n), nav.nm(n)),
                    nav.nm(trees.right_sibling(l)))
        if n.parent is None:
            if r is not None or l is not None:
                return ("the root has no siblings", [nav.nm(l), nav.nm(r)])
            continue
        ks = nav.kids(n.parent)
        if (r is None) != (ks[-1] is n) or (l is None) != (ks[0] is n):
            return ("%s: no right sibling iff last child (%s), no left sibling iff first child (%s)"
                    % (nav.nm(n), ks[-1] is n, ks[0] is n), [nav.nm(l), nav.nm(r)])
    return None


def c_dominance(ctx, spec):
    trees, t, nav = _setup(ctx, spec)
    for n in nav.nodes:
        exp = nav.chain(n)
        got = list(trees.dominance(n))
        if not L.same_seq(got, exp):
            return ("dominance(%s) == %s (node up to the root)" % (nav.nm(n), nav.nms(exp)),
                    nav.nms(got))
    return None


def c_lca(ctx, spec):
    trees, t, nav = _setup(ctx, spec)
    chains = dict((id(n), nav.chain(n)) for n in nav.nodes)
    for a in nav.nodes:
        ca = chains[id(a)]
        ida = set(id(x) for x in ca)
        for b in nav.nodes:
            cb = chains[id(b)]
            a_dom_b = any(x is a for x in cb)
            b_dom_a = any(x is b for x in ca)
            got = trees.lca(a, b)
            if a_dom_b or b_dom_a:
                if got is not None:
                    return ("lca(%s, %s) is None (one dominates the other)" % (nav.nm(a), nav.nm(b)),
                            nav.nm(got))
                continue
            # lowest node dominating both: first element of b's chain that is on a's chain
            exp = [x for x in cb if id(x) in ida][0]
            if got is not exp:
                return ("lca(%s, %s) is %s (lowest node dominating both)"
                        % (nav.nm(a), nav.nm(b), nav.nm(exp)), nav.nm(got))
    return None


def c_levels(ctx, spec):
    trees, t, nav = _setup(ctx, spec)
    for n in nav.nodes:
        if len(n.children) == 0:
            continue
        res = trees.levels(n)
        if not (isinstance(res, tuple) and len(res) == 2):
            return ("levels returns (levels, reverse_levels)", repr(type(res)))
        lev, revl = res
        cons = [x for x in nav.sub(n) if len(x.children) > 0]
        # height relative to n equals absolute height (longest downward path to a token)
        exp_rev = dict((nav.nm(x), nav.height[id(x)]) for x in cons)
        got_rev = {}
        for k, v in revl.items():
            got_rev[nav.nm(k)] = v
        if got_rev != exp_rev or len(revl) != len(cons):
            return ("levels(%s)[1] == %s (longest downward path to a token, constituents only)"
                    % (nav.nm(n), exp_rev), got_rev)
        exp_lev = {}
        for x in cons:
            exp_lev.setdefault(nav.height[id(x)], []).append(nav.nm(x))
        got_lev = dict((h, [nav.nm(x) for x in xs]) for h, xs in lev.items())
        if sorted(got_lev) != sorted(exp_lev) or \
                any(sorted(got_lev[h]) != sorted(exp_lev[h]) for h in exp_lev) or \
                any(len(set(id(x) for x in xs)) != len(xs) for xs in lev.values()):
            return ("levels(%s)[0] == %s (exactly the constituents of each height)"
                    % (nav.nm(n), exp_lev), got_lev)
    return None


def c_levels_after_change(ctx, spec):
    """the answers describe the tree as it is *now*: query levels / numbering / navigation, move one constituent to
    another place (the result is again a well-formed tree over the same node objects), query again"""
    trees, t, nav = _setup(ctx, spec)
    to = ctx.mod("treeoutput")
    trees.levels(t)
    to.compute_export_numbering(t)
    for n in nav.nodes:
        trees.terminals(n), trees.children(n), list(trees.preorder(n))
    # candidates: x (not the root) whose parent keeps another child; target: a constituent outside x's subtree
    for x in nav.nodes:
        p = x.parent
        if p is None or len(p.children) < 2:
            continue
        sub = set(id(y) for y in nav.sub(x))
        targets = [y for y in nav.nodes if len(y.children) > 0 and id(y) not in sub and y is not p]
        if not targets:
            continue
        tgt = targets[0]
        p.children.remove(x)
        tgt.children.append(x)
        x.parent = tgt
        for c in [y for y in nav.nodes if len(y.children) > 0 and y is not t]:
            c.data.pop("num", None)               # constituents carry no number (the first numbering wrote one)
        nav2 = L.Nav(t)
        lev, revl = trees.levels(t)
        cons = [y for y in nav2.nodes if len(y.children) > 0]
        exp = dict((nav2.nm(y), nav2.height[id(y)]) for y in cons)
        got = dict((nav2.nm(k), v) for k, v in revl.items())
        if got != exp:
            return ("after moving %s under %s: levels == %s" % (nav.nm(x), nav.nm(tgt), exp), got)
        for n in nav2.nodes:
            if not L.same_seq(trees.children(n), nav2.kids(n)) or not L.same_seq(list(trees.terminals(n)), nav2.toks(n)):
                return ("after moving %s under %s: children / terminals of %s follow the new structure"
                        % (nav.nm(x), nav.nm(tgt), nav2.nm(n)), nav2.nms(trees.children(n)))
        to.compute_export_numbering(t)
        for a in cons:
            for d in nav2.sub(a):
                if d is a or len(d.children) == 0 or a is t:
                    continue
                if not a.data["num"] > d.data["num"]:
                    return ("after moving %s under %s: constituent %s numbered above its descendant %s"
                            % (nav.nm(x), nav.nm(tgt), nav2.nm(a), nav2.nm(d)),
                            dict((nav2.nm(y), y.data.get("num")) for y in cons))
        return None
    return None


def c_export_numbering(ctx, spec):
    trees, t, nav = _setup(ctx, spec)
    to = ctx.mod("treeoutput")
    cons = [x for x in nav.nodes if len(x.children) > 0]
    leaves = [x for x in nav.nodes if len(x.children) == 0]
    before_leaf = dict((id(x), dict(x.data)) for x in leaves)
    before_cons = dict((id(x), dict((k, v) for k, v in x.data.items() if k != "num")) for x in cons)
    links = dict((id(x), (x.parent, list(x.children))) for x in nav.nodes)
    to.compute_export_numbering(t)
    # frame: leaves untouched, nothing but 'num' of constituents written, links unchanged
    for x in leaves:
        if x.data != before_leaf[id(x)]:
            return ("token %s untouched: %s" % (nav.nm(x), before_leaf[id(x)]), dict(x.data))
    for x in cons:
        now = dict((k, v) for k, v in x.data.items() if k != "num")
        if now != before_cons[id(x)]:
            return ("only data['num'] of constituent %s is written" % nav.nm(x), now)
    for x in nav.nodes:
        if x.parent is not links[id(x)][0] or not L.same_seq(x.children, links[id(x)][1]):
            return ("links of %s unchanged" % nav.nm(x), "changed")
    if t.data.get("num") != 0:
        return ("root numbered 0", t.data.get("num"))
    inner = [x for x in cons if x is not t]
    nums = [x.data.get("num") for x in inner]
    k = len(inner)
    if not all(type(x) is int for x in nums) or sorted(nums) != list(range(500, 500 + k)):
        return ("the %d constituents below the root are numbered bijectively onto 500..%d"
                % (k, 499 + k), dict((nav.nm(x), x.data.get("num")) for x in inner))
    for x in inner:
        for d in nav.sub(x):
            if d is x or len(d.children) == 0:
                continue
            if not x.data["num"] > d.data["num"]:
                return ("constituent %s numbered above its descendant %s" % (nav.nm(x), nav.nm(d)),
                        dict((nav.nm(y), y.data.get("num")) for y in inner))
    for a in inner:
        for b in inner:
            if nav.height[id(a)] == nav.height[id(b)] and nav.lm[id(a)] < nav.lm[id(b)] \
                    and not a.data["num"] < b.data["num"]:
                return ("within level %d left to right: %s before %s"
                        % (nav.height[id(a)], nav.nm(a), nav.nm(b)),
                        dict((nav.nm(y), y.data.get("num")) for y in inner))
    return None


def c_ghost_axioms(ctx, spec):
    """Validation of the theory the deductive contracts assume (contracts/common.py: wf_theory, terms_facts,
    children_facts): on a real well-formed tree the ghost functions depth / anc / pos / C / C_idx / T / T_idx
    exist and satisfy every axiom.  The ghost functions are computed here from the links only."""
    trees = ctx.mod("trees")
    root = tg.build(spec, trees)
    nodes = tg.all_nodes(root)
    par = {id(n): n.parent for n in nodes}
    depth = {}
    for n in nodes:
        d, x = 0, n
        while x.parent is not None:
            x = x.parent
            d += 1
        depth[id(n)] = d

    def anc(x, d):
        while depth[id(x)] > d:
            x = x.parent
        return x
    minleaf = {}

    def leaves(n):
        if not n.children:
            return [n]
        out = []
        for c in n.children:
            out.extend(leaves(c))
        return sorted(out, key=lambda t: t.data["num"])
    for n in nodes:
        minleaf[id(n)] = leaves(n)[0].data["num"]
    C = {id(n): sorted(n.children, key=lambda c: minleaf[id(c)]) for n in nodes}
    for x in nodes:
        p = x.parent
        dx = depth[id(x)]
        if not (dx >= 0 and anc(x, dx) is x and len(C[id(x)]) == len(x.children)):
            return ("wf_theory (1)", tg.spec_str(spec))
        if (p is None) != (dx == 0):
            return ("wf_theory (2): parent None iff depth 0", dx)
        if p is not None:
            pos = [i for i, c in enumerate(p.children) if c is x]
            cidx = [i for i, c in enumerate(C[id(p)]) if c is x]
            if not (dx == depth[id(p)] + 1 and len(pos) == 1 and len(cidx) == 1):
                return ("wf_theory (2): unique position in the parent's stored and ordered child lists", (pos, cidx))
        for k, c in enumerate(x.children):
            if c.parent is not x:
                return ("wf_theory (3): children point back", k)
        for d in range(0, dx + 1):
            a = anc(x, d)
            if depth[id(a)] != d or (d > 0 and anc(x, d - 1) is not a.parent):
                return ("wf_theory (5): anc(x,d-1) == parent(anc(x,d)), depth(anc(x,d)) == d", d)
        # terms_facts / children_facts
        T = leaves(x)
        nums = [t.data["num"] for t in T]
        if not (len(T) >= 1 and all(not t.children and "num" in t.data for t in T)
                and all(a < b for a, b in zip(nums, nums[1:])) and (x.children or T == [x])):
            return ("terms_facts: T(x) non-empty, leaves with num, strictly increasing; T(leaf) == [leaf]", nums)
        got = [t.data["num"] for t in trees.terminals(x)]
        if got != nums:
            return ("terminals(x) == T(x) = %s" % nums, got)
        gotc = [minleaf[id(c)] for c in trees.children(x)]
        if gotc != [minleaf[id(c)] for c in C[id(x)]]:
            return ("children(x) == C(x)", gotc)
        keys = [minleaf[id(c)] for c in C[id(x)]]
        if len(set(keys)) != len(keys):
            return ("children_facts: ordering keys of siblings are distinct", keys)
    # pre_def: node counts NN, prefix sums SNNC over the *ordered* child lists, P / Q defined by recursion
    NN = {}

    def nn(n):
        if id(n) not in NN:
            NN[id(n)] = 1 + sum(nn(c) for c in n.children)
        return NN[id(n)]

    def Pdef(n, post):
        out = [] if post else [n]
        for c in C[id(n)]:
            out.extend(Pdef(c, post))
        return out + [n] if post else out
    for x in nodes:
        sn = [0]
        for c in C[id(x)]:
            sn.append(sn[-1] + nn(c))
        if not (nn(x) >= 1 and nn(x) == 1 + sn[len(x.children)] and all(a <= b for a, b in zip(sn, sn[1:]))):
            return ("pre_def: NN(x) == 1 + SNNC(x, nchild), prefix sums monotone", (nn(x), sn))
        for post in (False, True):
            P = Pdef(x, post)
            off = 0 if post else 1
            if len(P) != nn(x) or P[nn(x) - 1 if post else 0] is not x:
                return ("pre_def: |P(x)| == NN(x), x first (last)", len(P))
            for k, c in enumerate(C[id(x)]):
                Pc = Pdef(c, post)
                for j in range(nn(c)):
                    if P[off + sn[k] + j] is not Pc[j]:
                        return ("pre_def: P(x)[off + SNNC(x,k) + j] is P(C(x)[k])[j]", (k, j))
            real = list((trees.postorder if post else trees.preorder)(x))
            if len(real) != len(P) or any(a is not b for a, b in zip(real, P)):
                return ("%s(x) == the recursively defined list" % ("postorder" if post else "preorder"),
                        [n_.data.get("label") or n_.data.get("word") for n_ in real])
            pos = dict((id(n_), i) for i, n_ in enumerate(P))
            sub = [n_ for n_ in nodes if anc(n_, depth[id(x)]) is x] if True else []
            sub = [n_ for n_ in sub if depth[id(n_)] >= depth[id(x)]]
            if len(pos) != len(P) or sorted(pos) != sorted(id(n_) for n_ in sub):
                return ("preorder_facts: every node below x exactly once", len(pos))
            for y in sub:
                for z in sub:
                    if y is not z and depth[id(z)] >= depth[id(y)] and anc(z, depth[id(y)]) is y:
                        if (pos[id(y)] > pos[id(z)]) != post:
                            return ("ancestors before (after) descendants", (pos[id(y)], pos[id(z)]))
    # mh_def: MH(x) = max over the tokens below x of depth(t) - depth(x), attained by some token of T(x)
    for x in nodes:
        T = leaves(x)
        diffs = [depth[id(t)] - depth[id(x)] for t in T]
        mh = max(diffs)
        if not (mh >= 0 and mh in diffs and all(d <= mh for d in diffs)):
            return ("mh_def: MH(x) is the maximal depth difference to a token of T(x), attained", diffs)
        # ... and it is the height of x (longest downward path to a token)
        def hh(n):
            return 0 if not n.children else 1 + max(hh(c) for c in n.children)
        if hh(x) != mh:
            return ("mh_def: MH(x) == longest downward path from x to a token", (hh(x), mh))
    # wf_theory_tokens: a rank (height) that strictly decreases towards the children, NL / SNL token counts,
    # least tokens of two stored children carry different numbers, distinct tokens carry distinct numbers
    hgt = {}

    def height(n):
        if id(n) not in hgt:
            hgt[id(n)] = 0 if not n.children else 1 + max(height(c) for c in n.children)
        return hgt[id(n)]
    for x in nodes:
        nl = len(leaves(x))
        if not (height(x) >= 0 and nl >= 1):
            return ("wf_theory_tokens: hgt >= 0, NL >= 1", (height(x), nl))
        if not x.children and not ("num" in x.data and nl == 1):
            return ("wf_theory_tokens: a token carries a number and NL == 1", sorted(x.data))
        snl = 0
        for k, c in enumerate(x.children):
            if not height(c) < height(x):
                return ("wf_theory_tokens: hgt(child) < hgt(x)", (height(c), height(x)))
            snl += len(leaves(c))
        if x.children and snl != nl:
            return ("wf_theory_tokens: NL(x) == SNL(x, nchild) (stored child lists partition the tokens)", (snl, nl))
        firsts = [leaves(c)[0].data["num"] for c in x.children]
        if len(set(firsts)) != len(firsts):
            return ("wf_theory_tokens: least tokens of different stored children carry different numbers", firsts)
        toks = leaves(x)
        if len(set(t.data["num"] for t in toks)) != len(toks) or len(set(id(t) for t in toks)) != len(toks):
            return ("wf_theory_tokens: distinct tokens below a node carry distinct numbers", [t.data["num"] for t in toks])
    return None


CLAUSES = {
    "ghost_axioms": c_ghost_axioms,
    "children_order": c_children_order, "terminals_order": c_terminals_order,
    "preorder": c_preorder, "postorder": c_postorder,
    "right_sibling": c_right_sibling, "left_sibling": c_left_sibling,
    "siblings_inverse": c_siblings_inverse, "dominance": c_dominance, "lca": c_lca,
    "levels": c_levels, "export_numbering": c_export_numbering, "levels_after_change": c_levels_after_change,
}

ORDER = ["ghost_axioms", "children_order", "terminals_order", "preorder", "postorder", "right_sibling",
         "left_sibling", "siblings_inverse", "dominance", "lca", "levels", "export_numbering", "levels_after_change"]


def generate(ctx):
    b = BOUNDS(ctx)
    rng = ctx.rng
    for n in range(1, b["exhaustive_shapes_n"] + 1):
        for sh in tg.shapes(n):
            for spec in L.order_variants(sh, rng, n <= b["all_child_permutations_n"]):
                k = L.stored_order_nontrivial(spec)
                for c in ORDER:
                    yield c, spec, k
    for spec in tg.random_specs(rng, b["random_trees"], 2, b["random_max_n"], unary_p=0.3,
                                shuffle=True):
        k = L.stored_order_nontrivial(spec)
        for c in ORDER:
            yield c, spec, k


def classify(clause, witness, expected, observed):
    # no genuine defect of /repo is known for C19: every failure is its own class
    return None


def exhaustive(ctx):
    return False   # stored orders above the permutation bound and the random trees are samples
