"""C06 bounded stand-in: grammar extraction is faithful to the treebank.

Every expectation is computed from the tree *specs* (token sets, see
lib_grammar.ref_nodes); the real `grammar.extract` is run on trees built from
the same specs through the Tree API.  The central oracle is
instantiate-and-compare: a recorded linearization is accepted for a node iff
applying it to the token blocks of the node's children (ordered by leftmost
token) gives exactly the node's blocks, every block of every child used once
and in order.
"""
from vlib import tg
from bounded.common import Skip
from bounded import lib_grammar as L

RULE = ("treebanks of 1..3 trees: every tree shape with n<=N tokens (all discontinuous shapes), "
        "decorated (a) with one label everywhere, (b) cyclic labels, (c) seeded-random labels with unary "
        "nodes and shuffled / reversed stored child order; each tree alone, doubled (counts 2), and in "
        "seeded pairs / triples; plus random trees up to 12 tokens.  One evaluation = one (clause, treebank). "
        "Non-trivial = treebank with a discontinuous node, a rule count > 1 or a unary node (key = rendering)")


def BOUNDS(ctx):
    return {"exhaustive_shapes_n": 4 if ctx.quick else 5,
            "decorations_per_shape": 4,
            "treebank_sizes": [1, 2, 3],
            "random_treebanks": 600 if ctx.quick else 6000,
            "random_max_n": 12}


SITES = {
    "rule_per_node": "trees.grammar.extract",
    "vertical_context": "trees.grammar.extract",
    "lexicon": "trees.grammar.extract",
    "reference_grammar": "trees.grammar.extract",
    "fanout": "trees.grammaranalysis.fan_out",
    "counts_per_label": "trees.grammar.extract",
    "contextfree": "trees.grammaranalysis.is_contextfree",
}


def _extract_all(ctx, specs):
    trees, gr = ctx.mod("trees"), ctx.mod("grammar")
    g, lex = {}, {}
    for spec in specs:
        gr.extract(tg.build(spec, trees), g, lex)
    return g, lex


def _node_str(node):
    return "%s%s <- %s" % (node["label"], node["blocks"],
                           " ".join("%s%s" % (l, b) for l, b in node["children"]))


def _match(ctx, specs, use_vert):
    """extract tree by tree; the occurrences added by each tree must be in
    one-to-one correspondence with the constituent nodes of that tree"""
    trees, gr = ctx.mod("trees"), ctx.mod("grammar")
    g, lex = {}, {}
    for ti, spec in enumerate(specs):
        before = L.flat3(g)
        ret = gr.extract(tg.build(spec, trees), g, lex)
        if ret is not g:
            return ("extract returns the grammar it was given", repr(type(ret)))
        after = L.flat3(g)
        delta = {}
        for k in after:
            d = after[k] - before.get(k, 0)
            if d < 0 or not isinstance(after[k], int):
                return ("counts only grow", {"rule": L.show({k: after[k]}), "before": before.get(k)})
            if d:
                delta[k] = d
        for k in before:
            if k not in after:
                return ("no recorded rule disappears", L.show({k: before[k]}))
        nodes = L.ref_nodes(spec)
        if sum(delta.values()) != len(nodes):
            return ("tree %d: %d constituent nodes -> %d rule occurrences" % (ti, len(nodes), len(nodes)),
                    {"occurrences_added": sum(delta.values()), "added": L.show(delta)})
        for node in nodes:
            func = L.node_func(node)
            vert = L.node_vert(node)
            found, reasons = None, []
            for k in delta:
                if delta[k] <= 0 or k[0] != func:
                    continue
                if use_vert and k[2] != vert:
                    reasons.append("vertical context %r" % (k[2],))
                    continue
                why = L.reproduces(k[1], node)
                if why is None:
                    found = k
                    break
                reasons.append("%s: %s" % (L.lin_str(k[1]), why))
            if found is None:
                exp = "tree %d: an occurrence of a rule %s whose linearization reproduces node %s" % (
                    ti, L.rule_str(func), _node_str(node))
                if use_vert:
                    exp += " with vertical context %s" % (list(vert),)
                return (exp, {"added_by_this_tree": L.show(delta), "rejected": reasons[:6]})
            delta[found] -= 1
        left = {k: v for k, v in delta.items() if v}
        if left:
            return ("tree %d: no occurrence beyond one per node" % ti, L.show(left))
    return None


def c_rule_per_node(ctx, specs):
    return _match(ctx, specs, False)


def c_vertical_context(ctx, specs):
    return _match(ctx, specs, True)


def c_lexicon(ctx, specs):
    g, lex = _extract_all(ctx, specs)
    exp = {}
    for spec in specs:
        for _, w, p in L.ref_tokens(spec):
            exp.setdefault(w, {})
            exp[w][p] = exp[w].get(p, 0) + 1
    got = {}
    for w in lex:
        got[w] = {t: lex[w][t] for t in lex[w]}
    if got != exp:
        return (exp, got)
    return None


def c_reference_grammar(ctx, specs):
    g, lex = _extract_all(ctx, specs)
    eg, _ = L.ref_extract(specs)
    a, b = L.flat3(eg), L.flat3(g)
    if a != b:
        e, o = L.diff(a, b)
        return (L.show(e), L.show(o))
    return None


def c_fanout(ctx, specs):
    """fan-out of each nonterminal of a recorded rule = number of blocks of the node / child"""
    ga = ctx.mod("grammaranalysis")
    g, _ = _extract_all(ctx, specs)
    for spec in specs:
        for node in L.ref_nodes(spec):
            func = L.node_func(node)
            lins = [l for l in g.get(func, {}) if L.reproduces(l, node) is None]
            if not lins:
                raise Skip()          # judged by rule_per_node
            exp = [len(node["blocks"])] + [len(b) for _, b in node["children"]]
            for l in lins:
                got = ga.fan_out(l)
                if list(got) != exp:
                    return ("fan_out(%s) == %s for node %s" % (L.lin_str(l), exp, _node_str(node)), list(got))
    return None


def c_counts_per_label(ctx, specs):
    g, _ = _extract_all(ctx, specs)
    exp, got = {}, {}
    for spec in specs:
        for node in L.ref_nodes(spec):
            exp[node["label"]] = exp.get(node["label"], 0) + 1
    for (f, l), c in L.flat(g).items():
        got[f[0]] = got.get(f[0], 0) + c
    if exp != got:
        return (exp, got)
    return None


def c_contextfree(ctx, specs):
    ga = ctx.mod("grammaranalysis")
    g, _ = _extract_all(ctx, specs)
    exp = all(L.spec_is_continuous(s) for s in specs)
    got = ga.is_contextfree(g)
    if bool(got) != exp or not isinstance(got, bool):
        return ("is_contextfree == %s (every tree continuous: %s)" % (exp, exp), got)
    return None


CLAUSES = {"rule_per_node": c_rule_per_node, "vertical_context": c_vertical_context,
           "lexicon": c_lexicon, "reference_grammar": c_reference_grammar, "fanout": c_fanout,
           "counts_per_label": c_counts_per_label, "contextfree": c_contextfree}
CLAUSES = {k: L.judged(v) for k, v in CLAUSES.items()}   # exceptions of the code under test are violations
ORDER = ["rule_per_node", "vertical_context", "lexicon", "reference_grammar", "fanout",
         "counts_per_label", "contextfree"]


def _has_unary(spec):
    return any((not tg.is_leaf_spec(s)) and len(s["c"]) == 1 and p is not None for s, p in tg.spec_nodes(spec))


def _key(specs):
    g, _ = L.ref_extract(specs)
    interesting = (not all(L.spec_is_continuous(s) for s in specs)
                   or any(c > 1 for c in L.flat(g).values())
                   or any(_has_unary(s) for s in specs))
    return " ".join(tg.spec_str(s) for s in specs) if interesting else None


def decorations(shape, rng):
    n_int = L.count_internal(shape)
    words = ["der", "Hund", "der", "bellt"]
    # (a) one label everywhere: maximal repetition among siblings and across levels
    yield L.label_shape(shape, ["S"] * n_int, ["NN"], ["w"], root="S")
    # (b) cyclic labels, stored child order reversed
    yield L.reverse_children(L.label_shape(shape, [["NP", "S", "VP"][i % 3] for i in range(n_int)],
                                           ["NN", "VB"], words))
    # (c) random labels, unary nodes, shuffled child lists, special words
    yield tg.spec_from_shape(shape, rng, unary_p=0.35, shuffle=True,
                             words=tg.WORDS_PLAIN + tg.WORDS_PUNCT + tg.WORDS_SPECIAL)
    yield tg.spec_from_shape(shape, rng, labels=["S", "NP"], pos=["NN"], words=["a", "b"],
                             unary_p=0.2, shuffle=True)


def treebanks(ctx):
    b = BOUNDS(ctx)
    rng = ctx.rng
    pool = []
    for n in range(1, b["exhaustive_shapes_n"] + 1):
        for sh in tg.shapes(n):
            for spec in decorations(sh, rng):
                pool.append(spec)
                yield [spec]
                yield [spec, spec]
    for i in range(0, len(pool) - 2, 2):
        yield [pool[i], pool[i + 2]]
    for i in range(len(pool)):
        yield [pool[i], rng.choice(pool), rng.choice(pool)]
    for i in range(b["random_treebanks"]):
        k = rng.randint(1, 3)
        tb = list(tg.random_specs(rng, k, 1, b["random_max_n"], unary_p=0.3, shuffle=True,
                                  labels=["S", "NP"], pos=["NN", "VB"], words=["a", "b", "C"]))
        if rng.random() < 0.3:
            tb.append(tb[0])
        yield tb[:3]


def generate(ctx):
    for tb in treebanks(ctx):
        k = _key(tb)
        for c in ORDER:
            yield c, tb, k


def classify(clause, witness, expected, observed):
    return None


def exhaustive(ctx):
    return False    # decorations and treebank combinations are sampled; shapes are exhaustive
