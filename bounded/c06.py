"""C06 bounded stand-in: grammar extraction is faithful to the treebank.

Every expectation is computed from the tree *specs* (token sets, see
lib_grammar.ref_nodes); the real `grammar.extract` is run on trees built from
the same specs through the Tree API.  The central oracle is
instantiate-and-compare: a recorded linearization is accepted for a node iff
applying it to the token blocks of the node's children (ordered by leftmost
token) gives exactly the node's blocks, every block of every child used once
and in order.
"""
from vlib import tg
from bounded.common import Skip
from bounded import lib_grammar as L
from bounded import lib_restructure as R

RULE = ("treebanks of 1..3 trees: every tree shape with n<=N tokens (all discontinuous shapes), "
        "decorated (a) with one label everywhere, (b) cyclic labels, (c) seeded-random labels with unary "
        "nodes and shuffled / reversed stored child order; each tree alone, doubled (counts 2), and in "
        "seeded pairs / triples; plus random trees up to 12 tokens.  One evaluation = one (clause, treebank). "
        "Non-trivial = treebank with a discontinuous node, a rule count > 1 or a unary node (key = rendering).  "
        "Clause current_structure: one tree, extracted, restructured in place (every well-formedness-keeping "
        "re-attachment of one token or constituent to another constituent for n<=M, those that change some "
        "node's gap degree for n=M+1, a seeded sample on random trees; transform.root_attach on every shape) "
        "and extracted again from the same Tree objects into fresh tables; non-trivial = the change alters "
        "some node's gap degree")


def BOUNDS(ctx):
    return {"exhaustive_shapes_n": 4 if ctx.quick else 5,
            "decorations_per_shape": 4,
            "treebank_sizes": [1, 2, 3],
            "random_treebanks": 600 if ctx.quick else 6000,
            "random_max_n": 12,
            "all_moves_n": 4 if ctx.quick else 5,
            "gap_changing_moves_n": 5 if ctx.quick else 6,
            "gap_changing_moves_cap": None if ctx.quick else 20000,
            "restructured_random_trees": 150 if ctx.quick else 2000,
            "moves_per_random_tree": 2}


SITES = {
    "rule_per_node": "trees.grammar.extract",
    "vertical_context": "trees.grammar.extract",
    "lexicon": "trees.grammar.extract",
    "reference_grammar": "trees.grammar.extract",
    "fanout": "trees.grammaranalysis.fan_out",
    "counts_per_label": "trees.grammar.extract",
    "contextfree": "trees.grammaranalysis.is_contextfree",
    "current_structure": "trees.grammar.extract",
}


def _extract_all(ctx, specs):
    trees, gr = ctx.mod("trees"), ctx.mod("grammar")
    g, lex = {}, {}
    for spec in specs:
        gr.extract(tg.build(spec, trees), g, lex)
    return g, lex


def _node_str(node):
    return "%s%s <- %s" % (node["label"], node["blocks"],
                           " ".join("%s%s" % (l, b) for l, b in node["children"]))


def _match(ctx, specs, use_vert):
    """extract tree by tree; the occurrences added by each tree must be in
    one-to-one correspondence with the constituent nodes of that tree"""
    trees, gr = ctx.mod("trees"), ctx.mod("grammar")
    g, lex = {}, {}
    for ti, spec in enumerate(specs):
        before = L.flat3(g)
        ret = gr.extract(tg.build(spec, trees), g, lex)
        if ret is not g:
            return ("extract returns the grammar it was given", repr(type(ret)))
        after = L.flat3(g)
        delta = {}
        for k in after:
            d = after[k] - before.get(k, 0)
            if d < 0 or not isinstance(after[k], int):
                return ("counts only grow", {"rule": L.show({k: after[k]}), "before": before.get(k)})
            if d:
                delta[k] = d
        for k in before:
            if k not in after:
                return ("no recorded rule disappears", L.show({k: before[k]}))
        nodes = L.ref_nodes(spec)
        if sum(delta.values()) != len(nodes):
            return ("tree %d: %d constituent nodes -> %d rule occurrences" % (ti, len(nodes), len(nodes)),
                    {"occurrences_added": sum(delta.values()), "added": L.show(delta)})
        for node in nodes:
            func = L.node_func(node)
            vert = L.node_vert(node)
            found, reasons = None, []
            for k in delta:
                if delta[k] <= 0 or k[0] != func:
                    continue
                if use_vert and k[2] != vert:
                    reasons.append("vertical context %r" % (k[2],))
                    continue
                why = L.reproduces(k[1], node)
                if why is None:
                    found = k
                    break
                reasons.append("%s: %s" % (L.lin_str(k[1]), why))
            if found is None:
                exp = "tree %d: an occurrence of a rule %s whose linearization reproduces node %s" % (
                    ti, L.rule_str(func), _node_str(node))
                if use_vert:
                    exp += " with vertical context %s" % (list(vert),)
                return (exp, {"added_by_this_tree": L.show(delta), "rejected": reasons[:6]})
            delta[found] -= 1
        left = {k: v for k, v in delta.items() if v}
        if left:
            return ("tree %d: no occurrence beyond one per node" % ti, L.show(left))
    return None


def c_rule_per_node(ctx, specs):
    return _match(ctx, specs, False)


def c_vertical_context(ctx, specs):
    return _match(ctx, specs, True)


def c_lexicon(ctx, specs):
    g, lex = _extract_all(ctx, specs)
    exp = {}
    for spec in specs:
        for _, w, p in L.ref_tokens(spec):
            exp.setdefault(w, {})
            exp[w][p] = exp[w].get(p, 0) + 1
    got = {}
    for w in lex:
        got[w] = {t: lex[w][t] for t in lex[w]}
    if got != exp:
        return (exp, got)
    return None


def c_reference_grammar(ctx, specs):
    g, lex = _extract_all(ctx, specs)
    eg, _ = L.ref_extract(specs)
    a, b = L.flat3(eg), L.flat3(g)
    if a != b:
        e, o = L.diff(a, b)
        return (L.show(e), L.show(o))
    return None


def c_fanout(ctx, specs):
    """fan-out of each nonterminal of a recorded rule = number of blocks of the node / child"""
    ga = ctx.mod("grammaranalysis")
    g, _ = _extract_all(ctx, specs)
    for spec in specs:
        for node in L.ref_nodes(spec):
            func = L.node_func(node)
            lins = [l for l in g.get(func, {}) if L.reproduces(l, node) is None]
            if not lins:
                raise Skip()          # judged by rule_per_node
            exp = [len(node["blocks"])] + [len(b) for _, b in node["children"]]
            for l in lins:
                got = ga.fan_out(l)
                if list(got) != exp:
                    return ("fan_out(%s) == %s for node %s" % (L.lin_str(l), exp, _node_str(node)), list(got))
    return None


def c_counts_per_label(ctx, specs):
    g, _ = _extract_all(ctx, specs)
    exp, got = {}, {}
    for spec in specs:
        for node in L.ref_nodes(spec):
            exp[node["label"]] = exp.get(node["label"], 0) + 1
    for (f, l), c in L.flat(g).items():
        got[f[0]] = got.get(f[0], 0) + c
    if exp != got:
        return (exp, got)
    return None


def c_contextfree(ctx, specs):
    ga = ctx.mod("grammaranalysis")
    g, _ = _extract_all(ctx, specs)
    exp = all(L.spec_is_continuous(s) for s in specs)
    got = ga.is_contextfree(g)
    if bool(got) != exp or not isinstance(got, bool):
        return ("is_contextfree == %s (every tree continuous: %s)" % (exp, exp), got)
    return None


def _against_reference(ctx, t, spec, when):
    """extract from the Tree objects of `t` into fresh tables; the result must be the reference
    grammar / lexicon of `spec` (rules, linearizations, vertical contexts with fan-outs, counts)"""
    gr = ctx.mod("grammar")
    g, lex = {}, {}
    gr.extract(t, g, lex)
    eg, elex = L.ref_extract([spec])
    a, b = L.flat3(eg), L.flat3(g)
    if a != b:
        e, o = L.diff(a, b)
        return ({"when": when, "grammar": L.show(e)}, {"grammar": L.show(o)})
    if L.plain_lex(lex) != elex:
        return ({"when": when, "lexicon": elex}, {"lexicon": L.plain_lex(lex)})
    return None


def c_current_structure(ctx, w):
    """extraction is faithful to the structure the tree has when extract is called:
    w = {"spec", "move": {"node": path, "to": path}} (re-attachment through the Tree API, see
    lib_restructure) or {"spec", "op": "root_attach"} (transform.root_attach, in place).  The tree
    is extracted, restructured in place (all Tree objects stay alive), extracted again."""
    trees = ctx.mod("trees")
    spec = w["spec"]
    n = len(tg.spec_leaves(spec))
    t = tg.build(spec, trees)
    bad = _against_reference(ctx, t, spec, "fresh tree")
    if bad:
        return bad
    if "move" in w:
        R.move_real(t, w["move"])
        assert not tg.wf_errors(t, expect_n=n), "the oracle's own move broke the tree"
        spec2 = R.move_spec(spec, w["move"])
    else:
        r = ctx.mod("transform").root_attach(t)
        if r is not t or tg.wf_errors(t, expect_n=n):
            raise Skip()                 # root_attach is judged by C12 / C04
        spec2 = tg.to_spec(t)            # the new structure, read off the children lists
    return _against_reference(ctx, t, spec2, "after the change")


CLAUSES = {"current_structure": c_current_structure, "rule_per_node": c_rule_per_node, "vertical_context": c_vertical_context,
           "lexicon": c_lexicon, "reference_grammar": c_reference_grammar, "fanout": c_fanout,
           "counts_per_label": c_counts_per_label, "contextfree": c_contextfree}
CLAUSES = {k: L.judged(v) for k, v in CLAUSES.items()}   # exceptions of the code under test are violations
ORDER = ["rule_per_node", "vertical_context", "lexicon", "reference_grammar", "fanout",
         "counts_per_label", "contextfree"]


def _has_unary(spec):
    return any((not tg.is_leaf_spec(s)) and len(s["c"]) == 1 and p is not None for s, p in tg.spec_nodes(spec))


def _key(specs):
    g, _ = L.ref_extract(specs)
    interesting = (not all(L.spec_is_continuous(s) for s in specs)
                   or any(c > 1 for c in L.flat(g).values())
                   or any(_has_unary(s) for s in specs))
    return " ".join(tg.spec_str(s) for s in specs) if interesting else None


def decorations(shape, rng):
    n_int = L.count_internal(shape)
    words = ["der", "Hund", "der", "bellt"]
    # (a) one label everywhere: maximal repetition among siblings and across levels
    yield L.label_shape(shape, ["S"] * n_int, ["NN"], ["w"], root="S")
    # (b) cyclic labels, stored child order reversed
    yield L.reverse_children(L.label_shape(shape, [["NP", "S", "VP"][i % 3] for i in range(n_int)],
                                           ["NN", "VB"], words))
    # (c) random labels, unary nodes, shuffled child lists, special words
    yield tg.spec_from_shape(shape, rng, unary_p=0.35, shuffle=True,
                             words=tg.WORDS_PLAIN + tg.WORDS_PUNCT + tg.WORDS_SPECIAL)
    yield tg.spec_from_shape(shape, rng, labels=["S", "NP"], pos=["NN"], words=["a", "b"],
                             unary_p=0.2, shuffle=True)


def treebanks(ctx):
    b = BOUNDS(ctx)
    rng = ctx.rng
    pool = []
    for n in range(1, b["exhaustive_shapes_n"] + 1):
        for sh in tg.shapes(n):
            for spec in decorations(sh, rng):
                pool.append(spec)
                yield [spec]
                yield [spec, spec]
    for i in range(0, len(pool) - 2, 2):
        yield [pool[i], pool[i + 2]]
    for i in range(len(pool)):
        yield [pool[i], rng.choice(pool), rng.choice(pool)]
    for i in range(b["random_treebanks"]):
        k = rng.randint(1, 3)
        tb = list(tg.random_specs(rng, k, 1, b["random_max_n"], unary_p=0.3, shuffle=True,
                                  labels=["S", "NP"], pos=["NN", "VB"], words=["a", "b", "C"]))
        if rng.random() < 0.3:
            tb.append(tb[0])
        yield tb[:3]


def _changes_after_root_attach(spec):
    # cheap: root_attach can only change something if the root has a child that is neither
    # sentence-initial nor sentence-final (the expectation itself is taken from the real tree)
    n = len(tg.spec_leaves(spec))
    for c in spec["c"]:
        ys = [l["n"] for l in tg.spec_leaves(c)]
        if min(ys) > 1 and max(ys) < n:
            return True
    return False


def restructurings(ctx):
    """(witness, non-trivial key) of the clause current_structure"""
    b = BOUNDS(ctx)
    rng = ctx.rng
    capped = 0
    for n in range(1, b["gap_changing_moves_n"] + 1):
        for sh in tg.shapes(n):
            n_int = L.count_internal(sh)
            # root VROOT (root_attach is a NeGra transformation), cyclic labels below
            spec = L.label_shape(sh, [["NP", "S", "VP"][i % 3] for i in range(n_int)],
                                 ["NN", "VB"], ["der", "Hund", "der", "bellt"])
            yield {"spec": spec, "op": "root_attach"}, \
                ("ra", tg.spec_str(spec)) if _changes_after_root_attach(spec) else None
            for mv, ch in R.moves_with_changes(spec):
                if n > b["all_moves_n"]:
                    if not ch:
                        continue
                    if b["gap_changing_moves_cap"] is not None:
                        capped += 1
                        if capped > b["gap_changing_moves_cap"]:
                            continue
                yield {"spec": spec, "move": mv}, (tg.spec_str(spec), R.move_str(spec, mv)) if ch else None
    randoms = list(tg.random_specs(rng, b["restructured_random_trees"], 3, b["random_max_n"], unary_p=0.3,
                                   shuffle=True, labels=["S", "NP"], pos=["NN", "VB"], words=["a", "b", "C"]))
    for spec in randoms:
        yield {"spec": spec, "op": "root_attach"}, \
            ("ra", tg.spec_str(spec)) if _changes_after_root_attach(spec) else None
        changing = [mv for mv, ch in R.moves_with_changes(spec) if ch]
        for mv in rng.sample(changing, min(len(changing), b["moves_per_random_tree"])):
            yield {"spec": spec, "move": mv}, (tg.spec_str(spec), R.move_str(spec, mv))


def generate(ctx):
    for tb in treebanks(ctx):
        k = _key(tb)
        for c in ORDER:
            yield c, tb, k
    # after the treebanks: the random stream of the clauses above stays what it was
    for w, k in restructurings(ctx):
        yield "current_structure", w, k


def classify(clause, witness, expected, observed):
    return None


def exhaustive(ctx):
    return False    # decorations and treebank combinations are sampled; shapes are exhaustive
