"""entry point: /venv/bin/python /verif/bounded/run.py CNN --out FILE [...]"""
import os
import sys
sys.dont_write_bytecode = True
sys.path.insert(0, os.path.dirname(os.path.dirname(os.path.abspath(__file__))))
from bounded import common
common.main()
