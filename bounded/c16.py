"""C16 bounded stand-in: gap-degree analysis against the set-based definition.

The same statements are *proved* for gap_degree_node / terminal_blocks /
has_gaps / gap_type by pyvc (contracts/c16.py); here they are re-checked on
enumerated trees (engine cross-check) and extended to what pyvc does not
reach: gap_degree over preorder, the three-way agreement with the bracket
writer and the grammar extractor, disco_order, and the analysis tasks.
"""
import io
import os
import tempfile
from vlib import tg
from bounded.common import Skip

RULE = ("all tree shapes with n<=N tokens (every internal node >=2 children, all discontinuous "
        "shapes included) plus seeded random trees with unary nodes and shuffled child lists; "
        "each (clause, tree) is one evaluation; non-trivial = distinct tree with at least one "
        "discontinuous node")


def BOUNDS(ctx):
    return {"exhaustive_shapes_n": 5 if ctx.quick else 6,
            "random_trees": 300 if ctx.quick else 6000, "random_max_n": 12}


SITES = {
    "node_gap_degree": "trees.treeanalysis.gap_degree_node",
    "blocks": "trees.trees.terminal_blocks",
    "tree_gap_degree": "trees.treeanalysis.gap_degree",
    "has_gaps": "trees.treeanalysis.has_gaps",
    "gap_type": "trees.treeanalysis.gap_type",
    "three_way": "trees.treeoutput.brackets",
    "disco_order": "trees.treeanalysis.disco_order",
    "tasks": "trees.treeanalysis.GapDegree.run",
}


def _nodes(t):
    return tg.all_nodes(t)


def c_node_gap_degree(ctx, spec):
    trees, ta = ctx.mod("trees"), ctx.mod("treeanalysis")
    t = tg.build(spec, trees)
    ys = tg.model(t)["yield"]
    for n in _nodes(t):
        exp = tg.gap_degree_of_set(ys[id(n)]) if n.children else 0
        got = ta.gap_degree_node(n)
        if got != exp:
            return ("gap_degree_node == %d for token set %s" % (exp, sorted(ys[id(n)])), got)
    return None


def c_blocks(ctx, spec):
    trees = ctx.mod("trees")
    t = tg.build(spec, trees)
    ys = tg.model(t)["yield"]
    for n in _nodes(t):
        exp = tg.runs_of_set(ys[id(n)])
        got = [[x.data["num"] for x in b] for b in trees.terminal_blocks(n)]
        if got != exp:
            return ("terminal_blocks == %s" % exp, got)
    return None


def c_tree_gap_degree(ctx, spec):
    trees, ta = ctx.mod("trees"), ctx.mod("treeanalysis")
    t = tg.build(spec, trees)
    ys = tg.model(t)["yield"]
    exp = max(tg.gap_degree_of_set(ys[id(n)]) for n in _nodes(t))
    got = ta.gap_degree(t)
    if got != exp:
        return ("gap_degree == %d" % exp, got)
    return None


def c_has_gaps(ctx, spec):
    trees, ta = ctx.mod("trees"), ctx.mod("treeanalysis")
    t = tg.build(spec, trees)
    ys = tg.model(t)["yield"]
    for n in _nodes(t):
        exp = tg.gap_degree_of_set(ys[id(n)]) > 0
        if bool(ta.has_gaps(n)) != exp:
            return ("has_gaps == %s for %s" % (exp, sorted(ys[id(n)])), ta.has_gaps(n))
    return None


def c_gap_type(ctx, spec):
    """gap_type: 'none' for tokens; 'pass' if the node itself is discontinuous; else 'source' if some
    constituent child is discontinuous; else 'none' (same statement as contracts/c16.py)"""
    trees, ta = ctx.mod("trees"), ctx.mod("treeanalysis")
    t = tg.build(spec, trees)
    ys = tg.model(t)["yield"]
    for n in _nodes(t):
        if not n.children:
            exp = "none"
        elif tg.gap_degree_of_set(ys[id(n)]) > 0:
            exp = "pass"
        elif any(c.children and tg.gap_degree_of_set(ys[id(c)]) > 0 for c in n.children):
            exp = "source"
        else:
            exp = "none"
        got = ta.gap_type(n)
        if got != exp:
            return ("gap_type == %r for %s" % (exp, sorted(ys[id(n)])), got)
    return None


def c_three_way(ctx, spec):
    """gap degree > 0  iff  bracket writer refuses  iff  extracted grammar not context-free"""
    trees, ta = ctx.mod("trees"), ctx.mod("treeanalysis")
    to, gr, ga = ctx.mod("treeoutput"), ctx.mod("grammar"), ctx.mod("grammaranalysis")
    t = tg.build(spec, trees)
    ys = tg.model(t)["yield"]
    disc = max(tg.gap_degree_of_set(ys[id(n)]) for n in _nodes(t)) > 0
    refused = False
    try:
        to.brackets(tg.build(spec, trees), io.StringIO())
    except ValueError:
        refused = True
    g = gr.extract(tg.build(spec, trees), {}, {})
    notcf = not ga.is_contextfree(g)
    if not (disc == refused == notcf):
        return ("discontinuous=%s == writer refuses == grammar not CF" % disc,
                {"refused": refused, "not_cf": notcf})
    return None


def _is_binary(spec):
    if tg.is_leaf_spec(spec):
        return True
    return len(spec["c"]) <= 2 and all(_is_binary(c) for c in spec["c"])


def c_disco_order(ctx, spec):
    if not _is_binary(spec):
        raise Skip()
    trees, ta = ctx.mod("trees"), ctx.mod("treeanalysis")
    n = len(tg.spec_leaves(spec))
    cont = tg.gap_degree_of_set([1]) == 0 and all(
        tg.gap_degree_of_set([l["n"] for l in tg.spec_leaves(s)]) == 0
        for s, _ in tg.spec_nodes(spec))
    for mode in ("left", "rightd"):
        t = tg.build(spec, trees)
        got = [x.data["num"] for x in ta.disco_order(t, mode)]
        if sorted(got) != list(range(1, n + 1)):
            return ("disco_order(%s) is a permutation of 1..%d" % (mode, n), got)
        if cont and got != list(range(1, n + 1)):
            return ("disco_order(%s) is the identity for a continuous tree" % mode, got)
    return None


def c_tasks(ctx, specs):
    """accumulators: per-degree counts sum to number of trees / constituents; tags = tokens"""
    trees, ta = ctx.mod("trees"), ctx.mod("treeanalysis")
    gd, pt, sc = ta.GapDegree(), ta.PosTags(), ta.SentenceCount()
    n_cons = n_tok = 0
    exp_node, exp_tree = {}, {}
    for spec in specs:
        t = tg.build(spec, trees)
        m = tg.model(t)
        n_cons += len(m["cons"])
        n_tok += len(m["toks"])
        degs = [tg.gap_degree_of_set(y) for _, y in m["cons"]]
        for d in degs:
            exp_node[d] = exp_node.get(d, 0) + 1
        exp_tree[max(degs)] = exp_tree.get(max(degs), 0) + 1
        gd.run(t)
        pt.run(t)
        sc.run(t)
    if gd.gaps_per_node != exp_node or gd.gaps_per_tree != exp_tree:
        return ({"per_node": exp_node, "per_tree": exp_tree},
                {"per_node": gd.gaps_per_node, "per_tree": gd.gaps_per_tree})
    if sum(gd.gaps_per_tree.values()) != len(specs) or sum(gd.gaps_per_node.values()) != n_cons:
        return ("totals %d trees %d nodes" % (len(specs), n_cons),
                (sum(gd.gaps_per_tree.values()), sum(gd.gaps_per_node.values())))
    if len(pt.tags) != n_tok or sc.cnt != len(specs):
        return ("%d tags, %d sentences" % (n_tok, len(specs)), (len(pt.tags), sc.cnt))
    gd.done(), pt.done(), sc.done()
    return None


CLAUSES = {"node_gap_degree": c_node_gap_degree, "blocks": c_blocks,
           "tree_gap_degree": c_tree_gap_degree, "has_gaps": c_has_gaps, "gap_type": c_gap_type,
           "three_way": c_three_way, "disco_order": c_disco_order, "tasks": c_tasks}

TREE_CLAUSES = ["node_gap_degree", "blocks", "tree_gap_degree", "has_gaps", "gap_type", "three_way", "disco_order"]


def _nt(spec):
    disc = any(tg.gap_degree_of_set([l["n"] for l in tg.spec_leaves(s)]) > 0
               for s, _ in tg.spec_nodes(spec))
    return tg.spec_str(spec) if disc else None


def generate(ctx):
    b = BOUNDS(ctx)
    batch = []
    for spec in tg.enum_specs(b["exhaustive_shapes_n"]):
        k = _nt(spec)
        for c in TREE_CLAUSES:
            yield c, spec, k
        batch.append(spec)
        if len(batch) == 3:
            yield "tasks", batch, tg.spec_str(batch[0])
            batch = []
    rng = ctx.rng
    for spec in tg.random_specs(rng, b["random_trees"], 2, b["random_max_n"], unary_p=0.3, shuffle=True):
        k = _nt(spec)
        for c in TREE_CLAUSES:
            yield c, spec, k


def exhaustive(ctx):
    return False   # the random part is a sample; the shape part alone is exhaustive up to the bound
