"""C16 bounded stand-in: gap-degree analysis against the set-based definition.

The same statements are *proved* for gap_degree_node / terminal_blocks /
has_gaps / gap_type by pyvc (contracts/c16.py); here they are re-checked on
enumerated trees (engine cross-check) and extended to what pyvc does not
reach: gap_degree over preorder, the three-way agreement with the bracket
writer and the grammar extractor, disco_order, and the analysis tasks.
"""
import io
import os
import tempfile
from vlib import tg
from bounded.common import Skip
from bounded import lib_restructure as R

RULE = ("all tree shapes with n<=N tokens (every internal node >=2 children, all discontinuous "
        "shapes included) plus seeded random trees with unary nodes and shuffled child lists; "
        "each (clause, tree) is one evaluation; non-trivial = distinct tree with at least one "
        "discontinuous node.  Clause current_structure: the same shapes, analysed, restructured "
        "in place (every well-formedness-keeping re-attachment of one token or constituent to "
        "another constituent for n<=M, those that change some node's gap degree for n=M+1, a "
        "seeded sample on the random trees; and transform.root_attach on every shape), analysed "
        "again on the same Tree objects; non-trivial = the change alters some node's gap degree")


def BOUNDS(ctx):
    return {"exhaustive_shapes_n": 5 if ctx.quick else 6,
            "random_trees": 300 if ctx.quick else 6000, "random_max_n": 12,
            "all_moves_n": 4 if ctx.quick else 5,
            "gap_changing_moves_n": 5 if ctx.quick else 6,
            "gap_changing_moves_cap": None if ctx.quick else 20000,
            "moves_per_random_tree": 2}


SITES = {
    "node_gap_degree": "trees.treeanalysis.gap_degree_node",
    "blocks": "trees.trees.terminal_blocks",
    "tree_gap_degree": "trees.treeanalysis.gap_degree",
    "has_gaps": "trees.treeanalysis.has_gaps",
    "gap_type": "trees.treeanalysis.gap_type",
    "three_way": "trees.treeoutput.brackets",
    "disco_order": "trees.treeanalysis.disco_order",
    "tasks": "trees.treeanalysis.GapDegree.run",
    "current_structure": "trees.treeanalysis.gap_degree_node",
}


def _nodes(t):
    return tg.all_nodes(t)


def c_node_gap_degree(ctx, spec):
    trees, ta = ctx.mod("trees"), ctx.mod("treeanalysis")
    t = tg.build(spec, trees)
    ys = tg.model(t)["yield"]
    for n in _nodes(t):
        exp = tg.gap_degree_of_set(ys[id(n)]) if n.children else 0
        got = ta.gap_degree_node(n)
        if got != exp:
            return ("gap_degree_node == %d for token set %s" % (exp, sorted(ys[id(n)])), got)
    return None


def c_blocks(ctx, spec):
    trees = ctx.mod("trees")
    t = tg.build(spec, trees)
    ys = tg.model(t)["yield"]
    for n in _nodes(t):
        exp = tg.runs_of_set(ys[id(n)])
        got = [[x.data["num"] for x in b] for b in trees.terminal_blocks(n)]
        if got != exp:
            return ("terminal_blocks == %s" % exp, got)
    return None


def c_tree_gap_degree(ctx, spec):
    trees, ta = ctx.mod("trees"), ctx.mod("treeanalysis")
    t = tg.build(spec, trees)
    ys = tg.model(t)["yield"]
    exp = max(tg.gap_degree_of_set(ys[id(n)]) for n in _nodes(t))
    got = ta.gap_degree(t)
    if got != exp:
        return ("gap_degree == %d" % exp, got)
    return None


def c_has_gaps(ctx, spec):
    trees, ta = ctx.mod("trees"), ctx.mod("treeanalysis")
    t = tg.build(spec, trees)
    ys = tg.model(t)["yield"]
    for n in _nodes(t):
        exp = tg.gap_degree_of_set(ys[id(n)]) > 0
        if bool(ta.has_gaps(n)) != exp:
            return ("has_gaps == %s for %s" % (exp, sorted(ys[id(n)])), ta.has_gaps(n))
    return None


def c_gap_type(ctx, spec):
    """gap_type: 'none' for tokens; 'pass' if the node itself is discontinuous; else 'source' if some
    constituent child is discontinuous; else 'none' (same statement as contracts/c16.py)"""
    trees, ta = ctx.mod("trees"), ctx.mod("treeanalysis")
    t = tg.build(spec, trees)
    ys = tg.model(t)["yield"]
    for n in _nodes(t):
        if not n.children:
            exp = "none"
        elif tg.gap_degree_of_set(ys[id(n)]) > 0:
            exp = "pass"
        elif any(c.children and tg.gap_degree_of_set(ys[id(c)]) > 0 for c in n.children):
            exp = "source"
        else:
            exp = "none"
        got = ta.gap_type(n)
        if got != exp:
            return ("gap_type == %r for %s" % (exp, sorted(ys[id(n)])), got)
    return None


def c_three_way(ctx, spec):
    """gap degree > 0  iff  bracket writer refuses  iff  extracted grammar not context-free"""
    trees, ta = ctx.mod("trees"), ctx.mod("treeanalysis")
    to, gr, ga = ctx.mod("treeoutput"), ctx.mod("grammar"), ctx.mod("grammaranalysis")
    t = tg.build(spec, trees)
    ys = tg.model(t)["yield"]
    disc = max(tg.gap_degree_of_set(ys[id(n)]) for n in _nodes(t)) > 0
    refused = False
    try:
        to.brackets(tg.build(spec, trees), io.StringIO())
    except ValueError:
        refused = True
    g = gr.extract(tg.build(spec, trees), {}, {})
    notcf = not ga.is_contextfree(g)
    if not (disc == refused == notcf):
        return ("discontinuous=%s == writer refuses == grammar not CF" % disc,
                {"refused": refused, "not_cf": notcf})
    return None


def _is_binary(spec):
    if tg.is_leaf_spec(spec):
        return True
    return len(spec["c"]) <= 2 and all(_is_binary(c) for c in spec["c"])


def c_disco_order(ctx, spec):
    if not _is_binary(spec):
        raise Skip()
    trees, ta = ctx.mod("trees"), ctx.mod("treeanalysis")
    n = len(tg.spec_leaves(spec))
    cont = tg.gap_degree_of_set([1]) == 0 and all(
        tg.gap_degree_of_set([l["n"] for l in tg.spec_leaves(s)]) == 0
        for s, _ in tg.spec_nodes(spec))
    for mode in ("left", "rightd"):
        t = tg.build(spec, trees)
        got = [x.data["num"] for x in ta.disco_order(t, mode)]
        if sorted(got) != list(range(1, n + 1)):
            return ("disco_order(%s) is a permutation of 1..%d" % (mode, n), got)
        if cont and got != list(range(1, n + 1)):
            return ("disco_order(%s) is the identity for a continuous tree" % mode, got)
    return None


def c_tasks(ctx, specs):
    """accumulators: per-degree counts sum to number of trees / constituents; tags = tokens"""
    trees, ta = ctx.mod("trees"), ctx.mod("treeanalysis")
    gd, pt, sc = ta.GapDegree(), ta.PosTags(), ta.SentenceCount()
    n_cons = n_tok = 0
    exp_node, exp_tree = {}, {}
    for spec in specs:
        t = tg.build(spec, trees)
        m = tg.model(t)
        n_cons += len(m["cons"])
        n_tok += len(m["toks"])
        degs = [tg.gap_degree_of_set(y) for _, y in m["cons"]]
        for d in degs:
            exp_node[d] = exp_node.get(d, 0) + 1
        exp_tree[max(degs)] = exp_tree.get(max(degs), 0) + 1
        gd.run(t)
        pt.run(t)
        sc.run(t)
    if gd.gaps_per_node != exp_node or gd.gaps_per_tree != exp_tree:
        return ({"per_node": exp_node, "per_tree": exp_tree},
                {"per_node": gd.gaps_per_node, "per_tree": gd.gaps_per_tree})
    if sum(gd.gaps_per_tree.values()) != len(specs) or sum(gd.gaps_per_node.values()) != n_cons:
        return ("totals %d trees %d nodes" % (len(specs), n_cons),
                (sum(gd.gaps_per_tree.values()), sum(gd.gaps_per_node.values())))
    if len(pt.tags) != n_tok or sc.cnt != len(specs):
        return ("%d tags, %d sentences" % (n_tok, len(specs)), (len(pt.tags), sc.cnt))
    # the printed reports: totals as counted, and the per-degree rows sum to the totals
    import contextlib
    import io as _io
    import re as _re
    buf = _io.StringIO()
    with contextlib.redirect_stdout(buf):
        gd.done(), pt.done(), sc.done()
    out = buf.getvalue()
    m_tot = _re.search(r"(\d+) trees, (\d+) nodes", out)
    rows = _re.findall(r"Gap degree\s+(\d+):\s+(\d+) (trees|nodes)", out)
    if not m_tot:
        return ("report line '<n> trees, <m> nodes'", out[-300:])
    tot_trees, tot_nodes = int(m_tot.group(1)), int(m_tot.group(2))
    rep_tree = {int(d): int(c) for d, c, k in rows if k == "trees"}
    rep_node = {int(d): int(c) for d, c, k in rows if k == "nodes"}
    if (tot_trees, tot_nodes) != (len(specs), n_cons) or rep_tree != exp_tree or rep_node != exp_node \
            or sum(rep_tree.values()) != tot_trees or sum(rep_node.values()) != tot_nodes:
        return ({"report": "%d trees, %d nodes" % (len(specs), n_cons), "per_tree": exp_tree, "per_node": exp_node},
                {"report": "%d trees, %d nodes" % (tot_trees, tot_nodes), "per_tree": rep_tree, "per_node": rep_node})
    m_sent = _re.search(r"(\d+) sentences", out)
    m_tags = _re.search(r"(\d+) different tags", out)
    n_tags = len(set(t for s_ in specs for (_, _, t) in tg.model(tg.build(s_, trees))["toks"]))
    if not m_sent or int(m_sent.group(1)) != len(specs) or not m_tags or int(m_tags.group(1)) != n_tags:
        return ("%d sentences, %d different tags" % (len(specs), n_tags), out[-200:])
    return None


def _analyse(ctx, t, when):
    """every analysis entry point of the property on the Tree objects of `t`, against the
    set-based expectation for the structure `t` has NOW (tg.model reads the children lists)"""
    trees, ta = ctx.mod("trees"), ctx.mod("treeanalysis")
    to, gr, ga = ctx.mod("treeoutput"), ctx.mod("grammar"), ctx.mod("grammaranalysis")
    m = tg.model(t)
    ys = m["yield"]
    nodes = _nodes(t)
    for n in nodes:
        y = sorted(ys[id(n)])
        what = "%s, node %s %s: " % (when, n.data.get("label"), y)
        exp = tg.gap_degree_of_set(y) if n.children else 0
        got = ta.gap_degree_node(n)
        if got != exp:
            return (what + "gap_degree_node == %d" % exp, got)
        got = ta.has_gaps(n)
        if bool(got) != (exp > 0):
            return (what + "has_gaps == %s" % (exp > 0), got)
        got = [[x.data["num"] for x in b] for b in trees.terminal_blocks(n)]
        if got != tg.runs_of_set(y):
            return (what + "terminal_blocks == %s" % tg.runs_of_set(y), got)
        if not n.children:
            gt = "none"
        elif exp > 0:
            gt = "pass"
        elif any(c.children and tg.gap_degree_of_set(ys[id(c)]) > 0 for c in n.children):
            gt = "source"
        else:
            gt = "none"
        got = ta.gap_type(n)
        if got != gt:
            return (what + "gap_type == %r" % gt, got)
    degs = [tg.gap_degree_of_set(y) for _, y in m["cons"]]
    top = max(degs)
    got = ta.gap_degree(t)
    if got != top:
        return ("%s: gap_degree == %d" % (when, top), got)
    gd = ta.GapDegree()
    gd.run(t)
    exp_node = {}
    for d in degs:
        exp_node[d] = exp_node.get(d, 0) + 1
    if gd.gaps_per_node != exp_node or gd.gaps_per_tree != {top: 1}:
        return ({"when": when, "per_node": exp_node, "per_tree": {top: 1}},
                {"per_node": gd.gaps_per_node, "per_tree": gd.gaps_per_tree})
    refused = False
    try:
        to.brackets(t, io.StringIO())
    except ValueError:
        refused = True
    notcf = not ga.is_contextfree(gr.extract(t, {}, {}))
    if not ((top > 0) == refused == notcf):
        return ("%s: discontinuous=%s == writer refuses == grammar not CF" % (when, top > 0),
                {"refused": refused, "not_cf": notcf})
    return None


def c_current_structure(ctx, w):
    """analysis follows the current structure: the statements of the property hold for a tree
    whose Tree objects were analysed before and then restructured in place.
    w = {"spec", "move": {"node": path, "to": path}}  (re-attachment through the Tree API, see
    lib_restructure) or {"spec", "op": "root_attach"} (transform.root_attach, in place)"""
    trees = ctx.mod("trees")
    t = tg.build(w["spec"], trees)
    n = len(tg.spec_leaves(w["spec"]))
    bad = _analyse(ctx, t, "fresh tree")
    if bad:
        return bad
    if "move" in w:
        R.move_real(t, w["move"])
        assert not tg.wf_errors(t, expect_n=n), "the oracle's own move broke the tree"
    else:
        r = ctx.mod("transform").root_attach(t)
        if r is not t or tg.wf_errors(t, expect_n=n):
            raise Skip()                 # root_attach is judged by C12 / C04
    return _analyse(ctx, t, "after the change")


CLAUSES = {"current_structure": c_current_structure, "node_gap_degree": c_node_gap_degree, "blocks": c_blocks,
           "tree_gap_degree": c_tree_gap_degree, "has_gaps": c_has_gaps, "gap_type": c_gap_type,
           "three_way": c_three_way, "disco_order": c_disco_order, "tasks": c_tasks}

TREE_CLAUSES = ["node_gap_degree", "blocks", "tree_gap_degree", "has_gaps", "gap_type", "three_way", "disco_order"]


def _nt(spec):
    disc = any(tg.gap_degree_of_set([l["n"] for l in tg.spec_leaves(s)]) > 0
               for s, _ in tg.spec_nodes(spec))
    return tg.spec_str(spec) if disc else None


def _changes_after_root_attach(spec):
    # cheap: root_attach can only change something if the root has a child that is neither
    # sentence-initial nor sentence-final (the expectation itself is taken from the real tree)
    n = len(tg.spec_leaves(spec))
    for c in spec["c"]:
        ys = [l["n"] for l in tg.spec_leaves(c)]
        if min(ys) > 1 and max(ys) < n:
            return True
    return False


def restructurings(ctx):
    """(witness, non-trivial key) of the clause current_structure"""
    b = BOUNDS(ctx)
    capped = 0
    for spec in tg.enum_specs(b["gap_changing_moves_n"]):
        n = len(tg.spec_leaves(spec))
        yield {"spec": spec, "op": "root_attach"}, \
            ("ra", tg.spec_str(spec)) if _changes_after_root_attach(spec) else None
        for mv, ch in R.moves_with_changes(spec):
            if n > b["all_moves_n"]:
                if not ch:
                    continue
                if b["gap_changing_moves_cap"] is not None:
                    capped += 1
                    if capped > b["gap_changing_moves_cap"]:
                        continue
            yield {"spec": spec, "move": mv}, (tg.spec_str(spec), R.move_str(spec, mv)) if ch else None


def _degree_gap_batches():
    """treebanks whose observed gap degrees are not 0..k-1 (degree 2 but no degree 1, degree 3 only, ...)"""
    def flat(nums_in_x, n):
        rest = [i for i in range(1, n + 1) if i not in nums_in_x]
        x = tg.node_spec("NP", [tg.leaf_spec(i, "w%d" % i, "NN") for i in nums_in_x])
        top = tg.node_spec("VROOT", [x] + [tg.leaf_spec(i, "w%d" % i, "VB") for i in rest])
        top["sid"] = 1
        return top
    cont = flat([1, 2], 3)
    deg2 = flat([1, 3, 5], 5)
    deg3 = flat([1, 3, 5, 7], 7)
    return [[cont, deg2], [deg2, deg2, cont], [deg3], [cont, deg3, deg2]]


def generate(ctx):
    b = BOUNDS(ctx)
    for batch in _degree_gap_batches():
        yield "tasks", batch, tg.spec_str(batch[0])
    for w, k in restructurings(ctx):
        yield "current_structure", w, k
    batch = []
    for spec in tg.enum_specs(b["exhaustive_shapes_n"]):
        k = _nt(spec)
        for c in TREE_CLAUSES:
            yield c, spec, k
        batch.append(spec)
        if len(batch) == 3:
            yield "tasks", batch, tg.spec_str(batch[0])
            batch = []
    rng = ctx.rng
    # drawn first, so that the sampling of moves below does not alter the trees
    randoms = list(tg.random_specs(rng, b["random_trees"], 2, b["random_max_n"], unary_p=0.3, shuffle=True))
    for spec in randoms:
        k = _nt(spec)
        for c in TREE_CLAUSES:
            yield c, spec, k
        yield "current_structure", {"spec": spec, "op": "root_attach"}, \
            ("ra", tg.spec_str(spec)) if _changes_after_root_attach(spec) else None
        changing = [mv for mv, ch in R.moves_with_changes(spec) if ch]
        for mv in rng.sample(changing, min(len(changing), b["moves_per_random_tree"])):
            yield "current_structure", {"spec": spec, "move": mv}, (tg.spec_str(spec), R.move_str(spec, mv))


def exhaustive(ctx):
    return False   # the random part is a sample; the shape part alone is exhaustive up to the bound
