"""C01 bounded stand-in: the readers decode every well-formed treebank file
faithfully; an ill-formed bracket group is rejected.

Contract (transcribed from the property): for a corpus written by OUR encoders
(lib_formats) from tree specs,

    list(reader(file, 'utf-8', **opts))  ==  the specs, seen through the option semantics

one tree per sentence, in order, every tree well formed (tg.wf_errors), tokens
(word/POS and lemma/morph/edge where the format carries them), labels, edges,
dominance and sid exactly as encoded.  The expectation is computed from the
specs and the documented meaning of the options only.
"""
import contextlib
import io
import itertools
import os
import random
import sys

from vlib import tg
from bounded.common import Skip
from bounded import lib_formats as lf

RULE = ("corpora of 1..3 sentences from all tree shapes with n<=N tokens (discontinuous ones included; "
        "bracket corpora use the continuous ones) plus seeded random trees with unary nodes, words drawn "
        "from a pool with punctuation, parentheses, XML-special and non-ASCII characters; each corpus is "
        "rendered by our own encoder in every format with a rotating layout (whitespace layout / header, "
        "tables, comments, secondary edges / attribute and node order) and read under every subset of the "
        "reader options of that format, plain or gzipped; one evaluation = (corpus, format, layout, option "
        "subset); non-trivial = distinct (format, option subset, first tree); bracket automaton: every "
        "token-class sequence over {(,),WS,TOKEN} up to length L (adjacent WS WS / TOKEN TOKEN cannot be "
        "rendered and are left out), classified by a recursive-descent reference grammar; the format's "
        "whitespace is the ASCII set string.whitespace: words and POS tags of the bracket / discobracket corpora "
        "(and the tokens of a second pass over the automaton) also contain U+00A0, U+3000, U+0085, U+2028 "
        "and 0x1c-0x1f, which are ordinary token characters there; TIGER-XML corpora carry those of them XML 1.0 allows")

# The reader docstring says indices run 1..n (and the package's own writer
# writes them so).  The reader as implemented adds 1 (anticipated finding F9),
# which makes EVERY base-1 file fail.  So that the rest of the discobrackets
# logic is still exercised, files with 0-based indices (disco-dop convention,
# the one the implementation accepts) are generated as well and judged against
# a base-0 decoding.  They are only in the domain while the reader implements
# that convention: a probe file decides it (reader_zero_based); once F9 is
# repaired on the reader side the base-0 evaluations are skipped and counted
# as outside the domain -- the base-1 evaluations are always judged.
DISCO_BASES = (0, 1)
_ZERO_BASED = {}


def reader_zero_based(ctx):
    """does the discobrackets reader of this repo accept 0-based indices?  Only used to decide
    whether base-0 files are in the domain (Skip otherwise), never to compute an expectation."""
    key = os.path.abspath(ctx.repo)
    if key not in _ZERO_BASED:
        trees, err, _ = run_reader(ctx, "discobrackets", b"(VROOT (A 0) (B 1))\tx y\n", "probe.dbr", {"quiet": True})
        ok = False
        if err is None and len(trees) == 1:
            leaves = sorted([(n.data.get("num"), n.data.get("word")) for n in tg.all_nodes(trees[0])
                             if not n.children], key=repr)
            ok = leaves == [(1, "x"), (2, "y")]
        _ZERO_BASED[key] = ok
    return _ZERO_BASED[key]


def BOUNDS(ctx):
    return {"exhaustive_shapes_n": 4 if ctx.quick else 5,
            "random_trees": 40 if ctx.quick else 700, "random_max_n": 8 if ctx.quick else 12,
            "long_sentences": 6 if ctx.quick else 40, "long_sentence_tokens": "10..13",
            "sentences_per_corpus": "1..3",
            "bracket_sequence_len": 7 if ctx.quick else 9,
            "bracket_sequence_len_emptypos": 6 if ctx.quick else 8,
            "bracket_sequence_len_uspace": 6 if ctx.quick else 8,
            "disco_bases": list(DISCO_BASES),
            "option_subsets": "all subsets of the options each format offers"}


SITES = {
    "read_export": "trees.treeinput.export",
    "read_brackets": "trees.treeinput.brackets",
    "read_discobrackets": "trees.treeinput.discobrackets",
    "read_disco_reordered": "trees.treeinput.brackets",
    "read_tigerxml": "trees.treeinput.tigerxml",
    "gf_split_same_effect": "trees.trees.parse_label",
    "gf_split_plain_labels": "trees.treeinput.export_parse_line",
    "bracket_groups": "trees.treeinput.brackets",
}


# ----------------------------------------------------------------------------
# rendering a witness, running a reader
# ----------------------------------------------------------------------------

def render(w):
    fmt, specs, enc = w["fmt"], w["specs"], dict(w.get("enc", {}))
    rng = random.Random(w.get("seed", 0))
    if fmt == "export":
        return lf.enc_export(specs, **enc).encode("utf-8"), "corpus.export"
    if fmt == "brackets":
        return lf.enc_brackets(specs, **enc).encode("utf-8"), "corpus.mrg"
    if fmt == "discobrackets":
        base = enc.pop("base")
        shuffle = enc.pop("shuffle", False)
        return lf.enc_brackets(specs, disco_base=base, shuffle_rng=rng if shuffle else None,
                               **enc).encode("utf-8"), "corpus.dbr"
    if fmt == "tigerxml":
        permute = enc.pop("permute", False)
        return lf.enc_tigerxml(specs, rng=rng if permute else None, **enc), "corpus.xml"
    raise ValueError(fmt)


def run_reader(ctx, fmt, data, name, opts, gz=False):
    """-> (trees, exception or None, text printed)"""
    reader = getattr(ctx.mod("treeinput"), fmt)
    trees, err = [], None
    out = io.StringIO()
    with lf.scratch() as d:
        path = os.path.join(d, name + (".gz" if gz else ""))
        lf.write_file(path, data, gz=gz)
        old = sys.stdout, sys.stderr
        sys.stdout = sys.stderr = out
        try:
            for t in reader(path, "utf-8", **dict(opts)):
                trees.append(t)
        except Exception as e:  # judged by the caller
            err = e
        finally:
            sys.stdout, sys.stderr = old
    return trees, err, out.getvalue()


def _exc(e):
    return "raised %s: %s" % (type(e).__name__, str(e)[:200])


def _fields(w):
    fmt, opts = w["fmt"], w.get("opts", {})
    if fmt == "export":
        lfld, nfld, _ = lf.CARRY["export%d" % w.get("enc", {}).get("version", 3)]
    else:
        lfld, nfld, _ = lf.CARRY[fmt]
    if fmt in ("brackets", "discobrackets") and "gf_split" in opts:
        lfld, nfld = lfld + ("e",), nfld + ("e",)
    return lfld, nfld


def expected_specs(w):
    """the witness specs seen through the documented option semantics"""
    fmt, opts, enc = w["fmt"], w.get("opts", {}), w.get("enc", {})
    out = []
    k = enc.get("emptypos_every", 0)
    for i, spec in enumerate(w["specs"]):
        def leaf_fn(l):
            if k and l["n"] % k == 0 and fmt == "brackets":
                # token written as "(word)": empty POS tag, nothing to split a function from
                l["l"] = lf.EMPTY_POS
                l["e"] = lf.EMPTY
            if "replace_parens" in opts:
                for f in ("w", "l", "e", "m", "lem"):
                    l[f] = lf.ref_replace_parens(l.get(f))
            for f in ("e", "m", "lem"):
                if l.get(f) is None:
                    l[f] = lf.EMPTY

        def node_fn(n):
            if "replace_parens" in opts:
                for f in ("l", "e"):
                    n[f] = lf.ref_replace_parens(n.get(f))
            if n.get("e") is None:
                n["e"] = lf.EMPTY
        s = lf.map_spec(spec, leaf_fn, node_fn)
        if fmt in ("export", "tigerxml"):
            s["sid"] = i + 1 if "continuous" in opts else spec["sid"]
        else:
            s["sid"] = opts.get("brackets_firstid", 1) + i
        out.append(s)
    return out


def c_read(ctx, w):
    fmt, opts, enc = w["fmt"], w.get("opts", {}), w.get("enc", {})
    if fmt == "discobrackets" and enc.get("base") == 0 and not reader_zero_based(ctx):
        raise Skip()
    data, name = render(w)
    lfld, nfld = _fields(w)
    exp_specs = expected_specs(w)
    trees, err, printed = run_reader(ctx, fmt, data, name, opts, w.get("gz", False))
    if err is not None:
        return ("%d trees, no exception" % len(exp_specs),
                {"kind": "exception", "after_trees": len(trees), "what": _exc(err)})
    if len(trees) != len(exp_specs):
        return ("one tree per sentence: %d" % len(exp_specs), {"kind": "count", "trees": len(trees)})
    for i, t in enumerate(trees):
        errs = tg.wf_errors(t, expect_n=len(tg.spec_leaves(exp_specs[i])))
        if errs:
            return ("tree %d well formed" % (i + 1), {"kind": "wf", "errors": errs[:3]})
    got_specs = [tg.to_spec(t) for t in trees]
    if fmt in ("brackets", "discobrackets") and enc.get("root") == "empty":
        for s in got_specs + exp_specs:
            s["e"] = None        # an omitted root label carries no function
    a = lf.canon_corpus(exp_specs, lfld, nfld)
    b = lf.canon_corpus(got_specs, lfld, nfld)
    d = lf.first_diff_t(a, b)
    if d is not None:
        return ({"at": d[0], "expected": d[1]}, {"kind": "content", "at": d[0], "got": d[2]})
    if "quiet" in opts and printed != "":
        return ("no messages with option quiet", {"kind": "quiet", "printed": printed[:100]})
    return None


def c_disco_reordered(ctx, w):
    """disco_reordered: 'In discobrackets, output CF order with terminal indices' -- the tree keeps
    the order of the bracketing (tokens numbered in that order) and each token shows its index
    together with the word that has this index: "<index>-<word>"."""
    enc = dict(w["enc"])
    base = enc["base"]
    if base == 0 and not reader_zero_based(ctx):
        raise Skip()
    data, name = render(w)
    exp = []
    text = data.decode("utf-8")
    for i, line in enumerate(l for l in text.split("\n") if l.strip()):
        tree_part, sent = line.split("\t", 1)
        words = sent.split(" ")
        got, perr = lf.bracket_groups(tree_part)
        assert perr is None and len(got) == 1
        s = got[0]
        for leaf in [x for x, _ in tg.spec_nodes(s) if tg.is_leaf_spec(x)]:
            idx = int(leaf["w"])
            leaf["w"] = "%d-%s" % (idx, words[idx - base])
        s["sid"] = 1 + i
        exp.append(s)
    opts = dict(w.get("opts", {}))
    opts["disco_reordered"] = True
    trees, err, _ = run_reader(ctx, "discobrackets", data, name, opts)
    if err is not None:
        return ("%d trees" % len(exp), {"kind": "exception", "what": _exc(err)})
    if len(trees) != len(exp):
        return ("%d trees" % len(exp), {"kind": "count", "trees": len(trees)})
    for t in trees:
        errs = tg.wf_errors(t)
        if errs:
            return ("well formed", {"kind": "wf", "errors": errs[:3]})
    a = lf.canon_corpus(exp, ("w", "l"), ("l",))
    b = lf.canon_corpus([tg.to_spec(t) for t in trees], ("w", "l"), ("l",))
    d = lf.first_diff_t(a, b)
    if d is not None:
        return ({"at": d[0], "expected": d[1]}, {"kind": "content", "at": d[0], "got": d[2]})
    return None


# ----------------------------------------------------------------------------
# gf_split: same option, same effect
# ----------------------------------------------------------------------------

def _gf_probe_spec(label, where):
    """VROOT( X(a b) c ) with the probed label on constituent X or on token b"""
    a = tg.leaf_spec(1, "a", "NN")
    b = tg.leaf_spec(2, "b", label if where == "leaf" else "VB")
    c = tg.leaf_spec(3, "c", "NN")
    x = tg.node_spec(label if where == "node" else "NP", [a, b])
    top = tg.node_spec("VROOT", [x, c])
    top["sid"] = 1
    return top


def _probe(tree, where):
    for n in tg.all_nodes(tree):
        if where == "node" and len(n.children) == 2 and n.parent is not None:
            return [n.data.get("label"), n.data.get("edge")]
        if where == "leaf" and len(n.children) == 0 and n.data.get("num") == 2:
            return [n.data.get("label"), n.data.get("edge")]
    return None


def c_gf_same(ctx, w):
    """the three readers that offer gf_split give the same (label, edge) for the same decorated
    label, namely (label without the function, function)"""
    label, where, sep = w["label"], w["where"], w.get("sep")
    spec = _gf_probe_spec(label, where)
    opts = {"gf_split": True, "quiet": True}
    if sep is not None:
        opts["gf_separator"] = sep
    got = {}
    for fmt, enc in (("export", {}), ("brackets", {}), ("tigerxml", {})):
        data, name = render({"fmt": fmt, "specs": [spec], "enc": enc})
        trees, err, _ = run_reader(ctx, fmt, data, name, opts)
        if err is not None or len(trees) != 1:
            got[fmt] = _exc(err) if err is not None else "%d trees" % len(trees)
        else:
            got[fmt] = _probe(trees[0], where)
    exp = list(lf.ref_split_gf(label, sep or "-")) if w.get("unambiguous", True) else None
    vals = list(got.values())
    same = all(v == vals[0] for v in vals)
    if not same or (exp is not None and vals[0] != exp):
        return ({"all_readers": exp if exp is not None else "equal results"}, got)
    return None


def c_gf_plain(ctx, w):
    """gf_split on a file whose labels carry no function and whose edge column / <edge label>
    does: there is nothing to split off, the encoded edges must survive"""
    fmt = w["fmt"]
    data, name = render(w)
    lfld, nfld = _fields(w)
    exp = lf.canon_corpus(expected_specs(w), lfld, nfld)
    trees, err, _ = run_reader(ctx, fmt, data, name, w["opts"])
    if err is not None:
        return ("no exception", {"kind": "exception", "what": _exc(err)})
    d = lf.first_diff_t(exp, lf.canon_corpus([tg.to_spec(t) for t in trees], lfld, nfld))
    if d is not None:
        return ({"at": d[0], "expected": d[1]}, {"kind": "content", "at": d[0], "got": d[2]})
    return None


# ----------------------------------------------------------------------------
# ill-formed bracket groups
# ----------------------------------------------------------------------------
_NAMES = "abcdefghijklmnop"


def render_seq(seq, uspace=False):
    """uspace: every token carries a character that is space for str.isspace() but not whitespace
    of the format (rotating through lib_formats.USPACE_CHARS), before, inside or after a letter"""
    out, k = [], 0
    for ch in seq:
        if ch == "t":
            name = _NAMES[k]
            if uspace:
                u = lf.USPACE_CHARS[k % len(lf.USPACE_CHARS)]
                name = (name + u + name, u + name, name + u)[k % 3]
            out.append(name)
            k += 1
        elif ch == "_":
            out.append(" ")
        else:
            out.append(ch)
    return "".join(out)


def _eof_inside_group(text):
    depth = 0
    for ch in text:
        if ch == "(":
            depth += 1
        elif ch == ")" and depth > 0:
            depth -= 1
    return depth > 0


def c_bracket_groups(ctx, w):
    text = render_seq(w["seq"], bool(w.get("uspace")))
    emptypos = bool(w.get("emptypos"))
    ref, ref_err = lf.bracket_groups(text, emptypos=emptypos)
    for i, s in enumerate(ref):
        s["sid"] = 1 + i
    opts = {"quiet": True}
    if emptypos:
        opts["brackets_emptypos"] = True
    trees, err, _ = run_reader(ctx, "brackets", text.encode("utf-8"), "seq.mrg", opts)
    got = [tg.to_spec(t) for t in trees]
    a = lf.canon_corpus(ref, ("w", "l"), ("l",))
    b = lf.canon_corpus(got, ("w", "l"), ("l",))
    exp_desc = {"text": text, "trees": len(ref), "error": ref_err}
    if a != b:
        return (exp_desc, {"kind": "trees", "diff": lf.first_diff(a, b), "raised": None if err is None else _exc(err)})
    for t in trees:
        errs = tg.wf_errors(t)
        if errs:
            return (exp_desc, {"kind": "wf", "errors": errs[:3]})
    if ref_err is None:
        if err is not None:
            return (exp_desc, {"kind": "raised-on-well-formed", "raised": _exc(err)})
        return None
    if err is None:
        return (exp_desc, {"kind": "silent", "ref": ref_err.split(":")[0],
                           "eof_inside_group": _eof_inside_group(text)})
    if not isinstance(err, ValueError):
        return (exp_desc, {"kind": "wrong-exception", "raised": _exc(err)})
    return None


CLAUSES = {
    "read_export": c_read, "read_brackets": c_read, "read_discobrackets": c_read,
    "read_tigerxml": c_read, "read_disco_reordered": c_disco_reordered,
    "gf_split_same_effect": c_gf_same, "gf_split_plain_labels": c_gf_plain,
    "bracket_groups": c_bracket_groups,
}


# ----------------------------------------------------------------------------
# defect classes
# ----------------------------------------------------------------------------

def _words(w):
    return [l["w"] for s in w.get("specs", []) for l in tg.spec_leaves(s)]


def classify(clause, w, expected, observed):
    ob = observed if isinstance(observed, dict) else {}
    kind = ob.get("kind")
    if clause == "bracket_groups":
        if kind == "silent" and ob.get("eof_inside_group"):
            return "unterminated-group-at-eof-silently-dropped"          # F11
        return None
    if clause == "gf_split_same_effect":
        if w.get("sep") is not None:
            ex, br = ob.get("export"), ob.get("brackets")
            want = (expected or {}).get("all_readers")
            if isinstance(ex, list) and isinstance(want, list) and ex == br and ex[1] == want[1] \
                    and ex[0] == want[0].replace("-", w["sep"]) and ex[0] != want[0]:
                return "coindex-reattached-with-the-gf-separator"
            if isinstance(ex, list) and isinstance(want, list) and ex == br == want:
                tx = ob.get("tigerxml")
                if isinstance(tx, list) and tx[1] == want[1] and tx[0] in (want[0] + "-", want[0][:-1] + "-'"):
                    return "tigerxml-gf_split-appends-dash-when-no-coindex"     # F10
            if isinstance(ex, list) and isinstance(want, list) and ex[1] == "--" and want[1] != "--":
                return "gf_separator-not-honoured-by-gf_split"          # F19 (repaired in /repo)
        tx, ex = ob.get("tigerxml"), ob.get("export")
        if isinstance(tx, list) and ex == ob.get("brackets") and isinstance(ex, list) and tx[1] == ex[1] \
                and tx[0] in (ex[0] + "-", ex[0][:-1] + "-'"):
            return "tigerxml-gf_split-appends-dash-when-no-coindex"     # F10
        return None
    if clause == "gf_split_plain_labels":
        if w.get("fmt") == "tigerxml" and kind == "content" and isinstance(ob.get("got"), str) \
                and isinstance(expected, dict) and ob["got"] == str(expected.get("expected")) + "-":
            return "tigerxml-gf_split-appends-dash-when-no-coindex"     # F10 (masks the edge question here)
        if kind == "content" and ob.get("got") == "--":
            return "gf_split-overwrites-the-encoded-edge-with-default"
        return None
    if clause == "read_disco_reordered":
        if kind == "content" and isinstance(ob.get("got"), str) and "-" in ob["got"]:
            return "disco_reordered-pairs-index-with-word-at-bracket-position"
        return None
    fmt, opts, enc = w.get("fmt"), w.get("opts", {}), w.get("enc", {})
    if fmt == "tigerxml" and w.get("gz") and kind == "exception" and "ParseError" in ob.get("what", ""):
        return "tigerxml-reader-does-not-gunzip"
    if fmt == "tigerxml" and "gf_split" in opts and kind == "content" \
            and isinstance(ob.get("got"), str) and ob["got"].endswith("-") \
            and isinstance(expected, dict) and ob["got"] == str(expected.get("expected")) + "-":
        return "tigerxml-gf_split-appends-dash-when-no-coindex"         # F10
    if fmt == "discobrackets":
        # feature-specific classes first, so that they stay attributable whichever index base is used
        if "replace_parens" in opts and kind == "content" and isinstance(ob.get("got"), str) \
                and lf.has_paren(ob["got"]) and isinstance(expected, dict) \
                and expected.get("expected") == lf.ref_replace_parens(ob["got"]):
            return "discobrackets-replace_parens-runs-before-the-tokens-are-filled-in"
        if enc.get("base") == 1 and kind == "wf" and "tokens not numbered" in str(ob.get("errors")):
            return "discobrackets-reader-takes-indices-as-0-based"      # F9
        if any(lf.has_paren(x) and len(x) > 1 for x in _words(w)) and kind in ("wf", "exception", "content"):
            return "discobrackets-sentence-token-with-parenthesis-split-by-lexer"   # F21
        if enc.get("final_newline") is False and kind in ("content", "exception"):
            return "discobrackets-last-token-lost-without-final-newline"
        if enc.get("base") == 1 and kind in ("wf", "exception", "content"):
            return "discobrackets-reader-takes-indices-as-0-based"      # F9
    if fmt == "brackets" and enc.get("emptypos_every") and "gf_split" in opts and kind == "content" \
            and any("-" in x.strip("-") for x in _words(w)):
        return "emptypos-word-split-by-gf_split"
    return None


# ----------------------------------------------------------------------------
# generation
# ----------------------------------------------------------------------------

def _subsets(names):
    for r in range(len(names) + 1):
        for c in itertools.combinations(names, r):
            yield c


def _opts(names):
    o = {}
    for n in names:
        o[n] = 7 if n == "brackets_firstid" else True
    return o


EXPORT_LAYOUTS = [
    {"version": 3, "layout": "aligned"},
    {"version": 4, "layout": "aligned", "header": True, "tables": True},
    {"version": 3, "layout": "tab", "comments": True, "bos_extra": True, "scheme": "post"},
    {"version": 4, "layout": "space", "secedges": True, "comments": True, "bos_extra": True},
    {"version": 3, "layout": "space", "header": True, "secedges": True, "blank_lines": True},
    {"version": 4, "layout": "tab", "scheme": "post", "tables": True, "blank_lines": True},
]
BRACKET_LAYOUTS = [
    {"layout": "line", "root": "label"}, {"layout": "compact", "root": "empty"},
    {"layout": "pretty", "root": "empty"}, {"layout": "spacey", "root": "label"},
    {"layout": "twolines", "root": "label"}, {"layout": "pretty", "root": "label", "between": "\n"},
    {"layout": "line", "root": "empty", "final_newline": False},
    {"layout": "compact", "root": "label", "between": "  stray ) tokens \n"},
]
DISCO_LAYOUTS = [
    {"layout": "line"}, {"layout": "compact", "shuffle": True}, {"layout": "spacey", "shuffle": True},
    {"layout": "line", "root": "empty"},
]
XML_LAYOUTS = [
    {}, {"permute": True}, {"permute": True, "secedges": True, "omit_vroot": True},
    {"permute": True, "header": False, "id_style": "n%d.%d"},
    {"permute": True, "sid_style": "tiger2_s%d"},
]


def _sequences(L):
    def rec(prefix):
        yield prefix
        if len(prefix) < L:
            for ch in "()_t":
                if ch in "_t" and prefix and prefix[-1] == ch:
                    continue
                for x in rec(prefix + ch):
                    yield x
    for ch in "()_t":
        for x in rec(ch):
            yield x


def _corpora(ctx, b):
    rng = ctx.rng
    specs = list(tg.enum_specs(b["exhaustive_shapes_n"], rng=rng, per_shape=1))
    # a few long sentences first (two-digit token numbers / ids: order by number, not by the digits' text)
    specs = list(tg.random_specs(rng, b["long_sentences"], 10, 13, unary_p=0.2, shuffle=True)) + specs
    specs += list(tg.random_specs(rng, b["random_trees"], 1, b["random_max_n"], unary_p=0.3, shuffle=True))
    sizes = itertools.cycle([1, 2, 3])
    i = 0
    while i < len(specs):
        k = next(sizes)
        yield specs[i:i + k]
        i += k


def generate(ctx):
    b = BOUNDS(ctx)
    rng = ctx.rng
    # --- gf_split, same effect -------------------------------------------------
    for where in ("node", "leaf"):
        for label in ["NP-SBJ", "NP-SBJ-1", "NP=2", "NP-SBJ=2-1", "NP", "-NONE-", "NP-1", "NP-SBJ'", "NP#SBJ"]:
            yield "gf_split_same_effect", {"label": label, "where": where}, label + where
        for label in ["PP-LOC-CLR", "PP-LOC-CLR-2"]:     # two separators: only "same in all readers"
            yield "gf_split_same_effect", {"label": label, "where": where, "unambiguous": False}, label + where
        for label in ["NP#SBJ", "NP#SBJ-1", "NP", "NP-SBJ", "NP#SBJ=2"]:
            yield "gf_split_same_effect", {"label": label, "where": where, "sep": "#"}, label + where + "#"
    # --- corpora -----------------------------------------------------------------
    n_c = 0
    for corpus in _corpora(ctx, b):
        n_c += 1
        sids = sorted(rng.sample(range(1, 400), len(corpus)))
        # export / tigerxml: any shape, any word
        pos = tg.POS + (["$("] if n_c % 3 == 0 else [])
        full = [lf.decorate(lf.map_spec(s), rng, words=lf.WORDS_ALL, pos=pos) for s in corpus]
        full = lf.with_sids(full, sids)
        key0 = tg.spec_str(full[0])
        # TIGER-XML can also carry words with non-ASCII space characters (export cannot: its
        # fields are separated by any whitespace); every second corpus gets some
        xfull = full
        if n_c % 2 == 0:
            xfull = [lf.map_spec(s, lambda l: l.update(w=rng.choice(lf.WORDS_USPACE_XML))
                                 if rng.random() < 0.3 else None) for s in full]
        for names in _subsets(["continuous", "gf_split", "replace_parens", "quiet"]):
            enc = dict(EXPORT_LAYOUTS[(n_c + len(names)) % len(EXPORT_LAYOUTS)])
            if "gf_split" in names:
                enc["gf_decorate"] = True
            gz = (n_c + len(names)) % 4 == 0
            yield "read_export", {"fmt": "export", "specs": full, "enc": enc, "opts": _opts(names), "gz": gz}, \
                ("export", names, key0)
            enc = dict(XML_LAYOUTS[(n_c + len(names)) % len(XML_LAYOUTS)])
            if "gf_split" in names:
                enc["gf_decorate"] = True
            yield "read_tigerxml", {"fmt": "tigerxml", "specs": xfull, "enc": enc, "opts": _opts(names),
                                    "seed": n_c, "gz": (n_c % 16 == 0 and len(names) == 0)}, ("tigerxml", names, key0)
        if n_c % 2 == 0:
            for fmt in ("export", "tigerxml"):
                yield "gf_split_plain_labels", {"fmt": fmt, "specs": full, "enc": {"version": 3} if fmt == "export" else {},
                                                "opts": {"gf_split": True, "quiet": True}}, (fmt, key0)
        # brackets: continuous trees, parentheses in tokens under their PTB names
        cont = [s for s in full if lf.spec_is_continuous(s)]
        if cont:
            # characters that are space for str.isspace() but not whitespace of the format
            # (string.whitespace) are ordinary token characters, in words and in labels
            words = lf.WORDS_ALL + ["S-Bahn"] + lf.WORDS_USPACE
            bpos = tg.POS + (lf.POS_USPACE if n_c % 3 == 1 else [])
            br = [lf.escape_spec_for_brackets(lf.decorate(lf.map_spec(s), rng, words=words, morph=False, lemma=False,
                                                          pos=bpos)) for s in cont]
            for names in _subsets(["gf_split", "replace_parens", "brackets_firstid", "quiet", "brackets_emptypos"]):
                enc = dict(BRACKET_LAYOUTS[(n_c + len(names)) % len(BRACKET_LAYOUTS)])
                if "gf_split" in names:
                    enc["gf_decorate"] = True
                if "brackets_emptypos" in names:
                    enc["emptypos_every"] = 2 + n_c % 2
                gz = (n_c + len(names)) % 5 == 0
                yield "read_brackets", {"fmt": "brackets", "specs": br, "enc": enc, "opts": _opts(names), "gz": gz}, \
                    ("brackets", names, tg.spec_str(br[0]))
        # discobrackets: any shape; sentence part carries the raw tokens
        wpool = (lf.WORDS_ALL if n_c % 4 == 0 else lf.WORDS_NOPAREN + ["(", ")"]) + lf.WORDS_USPACE
        dpos = tg.POS + (lf.POS_USPACE if n_c % 3 != 1 else [])
        db = [lf.decorate(lf.map_spec(s), rng, words=wpool, morph=False, lemma=False, pos=dpos) for s in corpus]
        for names in _subsets(["gf_split", "replace_parens", "brackets_firstid", "quiet"]):
            base = DISCO_BASES[0] if (n_c + len(names)) % 4 else DISCO_BASES[-1]
            enc = dict(DISCO_LAYOUTS[(n_c + len(names)) % len(DISCO_LAYOUTS)])
            enc["base"] = base
            if "gf_split" in names:
                enc["gf_decorate"] = True
            if n_c % 7 == 0 and len(names) == 1:
                enc["final_newline"] = False
            yield "read_discobrackets", {"fmt": "discobrackets", "specs": db, "enc": enc, "opts": _opts(names),
                                         "seed": n_c, "gz": (n_c + len(names)) % 6 == 0}, \
                ("disco", names, base, tg.spec_str(db[0]))
        plain = [lf.decorate(lf.map_spec(s), rng, words=lf.WORDS_NOPAREN, morph=False, lemma=False) for s in corpus]
        for base in DISCO_BASES:
            yield "read_disco_reordered", {"fmt": "discobrackets", "specs": plain,
                                           "enc": {"layout": "line", "base": base, "shuffle": n_c % 2 == 0},
                                           "opts": {"quiet": True}, "seed": n_c}, \
                (base, tg.spec_str(plain[0])) if not all(lf.spec_is_continuous(s) for s in plain) else None
    # --- bracket automaton ---------------------------------------------------------
    for seq in _sequences(b["bracket_sequence_len"]):
        yield "bracket_groups", {"seq": seq}, seq if "(" in seq else None
    for seq in _sequences(b["bracket_sequence_len_emptypos"]):
        if "(" in seq:
            yield "bracket_groups", {"seq": seq, "emptypos": True}, seq + "+e"
    for seq in _sequences(b["bracket_sequence_len_uspace"]):
        if "(" in seq and "t" in seq:
            yield "bracket_groups", {"seq": seq, "uspace": True}, seq + "+u"


def exhaustive(ctx):
    return False   # shapes and token-class sequences are exhaustive up to the bound; decorations/layouts rotate
