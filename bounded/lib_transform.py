"""Shared helpers of the bounded oracles C04, C05, C12, C13, C14.

Everything here works on *specs* (vlib.tg) and token sets.  Nothing in this
file calls a function of the code under test to compute an expectation: the
reference implementations (`ref_root_attach`, `ref_raise`, `ref_collapse`,
`ref_uncollapse`, `ref_unbinarize`, `expected_split`) are written from the
docstrings / DESIGN section 5 and never touch parent/children pointers of
real trees.  The only place where real functions are called is `apply_step`
(it *runs* the transformation that is being judged).
"""
import copy
import itertools
import re

from vlib import tg
from bounded.common import Skip

# ----------------------------------------------------------------------------
# punctuation inventories as documented in trees/trees.py (own copy: the
# oracles do not read them from the code under test)
# ----------------------------------------------------------------------------
QUOTES = ["\"", "'", "''", "`", "``"]
BRACKET_WORDS = ["(", "-LRB-", "[", "-LSB-", "{", "-LCB-", ")", "-RRB-", "]", "-RSB-", "}", "-RCB-"]
COMMA = [".", ",", ";", "?", "!", "--", ":", "-", "/", "..."]
PAIRPUNCT = set(QUOTES + BRACKET_WORDS)
PUNCT = set(QUOTES + BRACKET_WORDS + COMMA)

RELC = "PRELS"          # POS used for the relc option of punctuation_symetrify

# data keys carried from real trees into specs (spec["x"])
EXTRA = ("uid", "head", "split", "head_block", "block_number")


# ----------------------------------------------------------------------------
# spec utilities
# ----------------------------------------------------------------------------
def is_leaf(s):
    return "c" not in s


def uidify(spec):
    """deep copy with a stable key x.uid on every node (preorder numbers)"""
    spec = copy.deepcopy(spec)
    cnt = itertools.count(1)

    def rec(s):
        s.setdefault("x", {})["uid"] = next(cnt)
        if not is_leaf(s):
            for c in s["c"]:
                rec(c)
    rec(spec)
    return spec


def xget(s, key, default=None):
    return s.get("x", {}).get(key, default)


def tokset(s):
    if is_leaf(s):
        return frozenset([s["n"]])
    out = frozenset()
    for c in s["c"]:
        out = out | tokset(c)
    return out


def minleaf(s):
    ys = [y for y in tokset(s) if y is not None]
    return min(ys) if ys else 10 ** 9


def tokens(s):
    """[(num, word, pos)] sorted by num"""
    out = []

    def rec(t):
        if is_leaf(t):
            out.append((t["n"], t["w"], t["l"]))
        else:
            for c in t["c"]:
                rec(c)
    rec(s)
    return sorted(out, key=lambda t: (t[0] is None, t[0]))


def constituents(s):
    """preorder list of constituent specs (nodes with children)"""
    out = []

    def rec(t):
        if not is_leaf(t):
            out.append(t)
            for c in t["c"]:
                rec(c)
    rec(s)
    return out


def all_specs(s):
    out = []

    def rec(t, p):
        out.append((t, p))
        if not is_leaf(t):
            for c in t["c"]:
                rec(c, t)
    rec(s, None)
    return out


def label_bag(s):
    """sorted list of (uid, label) of the constituents"""
    return sorted(((xget(c, "uid"), c["l"]) for c in constituents(s)),
                  key=lambda p: (str(p[0]), str(p[1])))


def max_arity(s):
    return max([len(c["c"]) for c in constituents(s)] or [0])


def is_continuous(s):
    return all(tg.gap_degree_of_set(tokset(c)) == 0 for c in constituents(s))


def canon(s, node_fields=("l", "e"), leaf_fields=("w", "l", "e", "m", "lem"), x=("uid",)):
    """identity-free canonical form: children ordered by least token"""
    if is_leaf(s):
        return ("T", s.get("n")) + tuple(s.get(f) for f in leaf_fields) + tuple(xget(s, k) for k in x)
    kids = sorted((c for c in s["c"]), key=minleaf)
    return ("N",) + tuple(s.get(f) for f in node_fields) + tuple(xget(s, k) for k in x) + \
        (tuple(canon(c, node_fields, leaf_fields, x) for c in kids),)


def canon_structure(s):
    """labels, words, token numbers and dominance only"""
    return canon(s, node_fields=("l",), leaf_fields=("w", "l"), x=())


def show(s):
    """short rendering for messages"""
    if is_leaf(s):
        return "%s:%s/%s" % (s.get("n"), s.get("w"), s.get("l"))
    kids = sorted(s["c"], key=minleaf)
    return "(%s %s)" % (s["l"], " ".join(show(c) for c in kids))


def parent_map(s):
    """uid -> uid of the parent (None for the root); needs unique uids"""
    out = {}
    for t, p in all_specs(s):
        out[xget(t, "uid")] = None if p is None else xget(p, "uid")
    return out


def real_spec(root):
    """spec of a real tree with the bookkeeping data"""
    return tg.to_spec(root, extra=EXTRA)


# ----------------------------------------------------------------------------
# reference: root_attach (DESIGN section 5, C12) -- state is a parent
# function over node keys; Y(node) = token set
# ----------------------------------------------------------------------------
class PModel(object):
    """nodes keyed by preorder index; `parent` is the only mutable part"""

    def __init__(self, spec):
        self.info = {}
        self.parent = {}
        cnt = itertools.count()

        def rec(s, p):
            k = next(cnt)
            d = {f: v for f, v in s.items() if f != "c"}
            d["leaf"] = is_leaf(s)
            self.info[k] = d
            self.parent[k] = p
            if not is_leaf(s):
                for c in s["c"]:
                    rec(c, k)
        rec(spec, None)
        self.root = 0
        self.leaves = [k for k in self.info if self.info[k]["leaf"]]

    def ancestors(self, k):
        out = []
        k = self.parent[k]
        while k is not None:
            out.append(k)
            k = self.parent[k]
        return out

    def Y(self, k):
        return frozenset(self.info[l]["n"] for l in self.leaves
                         if l == k or k in self.ancestors(l))

    def kids(self, k):
        return sorted((c for c in self.parent if self.parent[c] == k), key=lambda c: min(self.Y(c)))

    def leaf_of(self, num):
        for l in self.leaves:
            if self.info[l]["n"] == num:
                return l
        raise KeyError(num)

    def to_spec(self, k=None):
        k = self.root if k is None else k
        d = {f: v for f, v in self.info[k].items() if f != "leaf"}
        if not self.info[k]["leaf"]:
            d["c"] = [self.to_spec(c) for c in self.kids(k)]
        return d


def ref_root_attach(spec):
    m = PModel(spec)
    n = len(m.leaves)
    order = m.kids(m.root)
    for c in order:
        yc = m.Y(c)
        l = min(yc) - 1
        edge = max(yc)
        r = edge + 1
        for s in m.kids(m.root):
            ys = m.Y(s)
            if min(ys) <= min(yc):
                continue                      # not right of c
            if min(ys) < edge:
                continue                      # interleaved with the focus: skipped
            if min(ys) > edge + 1:
                break                         # gap: done
            edge = max(ys)
            r = edge + 1
        if l < 1 or r > n:
            continue
        target = None
        for a in m.ancestors(m.leaf_of(l)):   # lowest node whose token set contains l and r
            if r in m.Y(a):
                target = a
                break
        if target is None or target == m.root:
            continue
        m.parent[c] = target
    return m.to_spec()


# ----------------------------------------------------------------------------
# reference: boyd_split + raising (DESIGN section 5, C05)
# ----------------------------------------------------------------------------
def head_children_ok(spec):
    """every constituent has exactly one child with head True"""
    for c in constituents(spec):
        if sum(1 for k in c["c"] if xget(k, "head") is True) != 1:
            return False
    return True


def _mk(s, kids):
    d = {f: v for f, v in s.items() if f != "c"}
    d["c"] = kids
    return d


def ref_raise(spec):
    """spec carries x.head on every non-root node (the head-marked input)"""
    def ref(node, is_root):
        if is_leaf(node):
            return copy.deepcopy(node), []
        items = []
        for c in node["c"]:
            k, rs = ref(c, False)
            items.append((k, xget(c, "head") is True))
            items.extend((x, False) for x in rs)
        items.sort(key=lambda it: minleaf(it[0]))
        if is_root:
            return _mk(node, [it[0] for it in items]), []
        runs = [[items[0]]]
        for prev, it in zip(items, items[1:]):
            if min(tokset(it[0])) == max(tokset(prev[0])) + 1:
                runs[-1].append(it)
            else:
                runs.append([it])
        headruns = [r for r in runs if any(h for _, h in r)]
        if len(headruns) != 1:
            raise Skip()          # not exactly one head child: outside the domain
        run = headruns[0]
        raised = [it[0] for r in runs if r is not run for it in r]
        return _mk(node, [it[0] for it in run]), raised
    kept, raised = ref(spec, True)
    assert not raised
    return kept


def expected_split(spec):
    """after boyd_split alone: list of (uid, label, tokens, block_number or None, head_block)
    for every constituent of the head-marked input; one entry per token block"""
    out = []

    def headblock_tokens(node):
        """token set of the head block of `node` (the block that holds the head
        block of its head child, recursively)"""
        if is_leaf(node):
            return tokset(node)
        heads = [c for c in node["c"] if xget(c, "head") is True]
        if len(heads) != 1:
            raise Skip()
        inner = headblock_tokens(heads[0])
        for b in tg.runs_of_set(tokset(node)):
            if inner <= frozenset(b):
                return frozenset(b)
        raise AssertionError("head block of a child straddles blocks")

    for c in constituents(spec):
        blocks = tg.runs_of_set(tokset(c))
        hb = headblock_tokens(c)
        for i, b in enumerate(blocks):
            out.append((xget(c, "uid"), c["l"], tuple(b),
                        (i + 1) if len(blocks) > 1 else None,
                        frozenset(b) == hb))
    return sorted(out, key=repr)


# ----------------------------------------------------------------------------
# references: unary chains, un-binarization
# ----------------------------------------------------------------------------
def ref_collapse(s):
    """merge every unary chain into its top node, labels joined top-down with '+';
    a chain ending in a token becomes that token with POS 'X+...+POS'"""
    if is_leaf(s):
        return {"n": s["n"], "w": s["w"], "l": s["l"]}
    labels = [s["l"]]
    cur = s
    while not is_leaf(cur) and len(cur["c"]) == 1:
        cur = cur["c"][0]
        labels.append(cur["l"])
    label = "+".join(labels)
    if is_leaf(cur):
        return {"n": cur["n"], "w": cur["w"], "l": label}
    return {"l": label, "c": [ref_collapse(c) for c in cur["c"]]}


def ref_uncollapse(s):
    parts = s["l"].split("+")
    if is_leaf(s):
        inner = {"n": s["n"], "w": s["w"], "l": parts[-1]}
    else:
        inner = {"l": parts[-1], "c": [ref_uncollapse(c) for c in s["c"]]}
    for p in reversed(parts[:-1]):
        inner = {"l": p, "c": [inner]}
    return inner


def strip_coindex(label):
    """category without co-index: drop a trailing '-<digits>'"""
    return re.sub(r"-[0-9]+$", "", label)


def ref_unbinarize(s, is_added):
    """splice the children of every added node into its parent"""
    if is_leaf(s):
        return copy.deepcopy(s)
    kids = []

    def collect(node):
        for c in node["c"]:
            if not is_leaf(c) and is_added(c):
                collect(c)
            else:
                kids.append(ref_unbinarize(c, is_added))
    collect(s)
    return _mk(s, kids)


# ----------------------------------------------------------------------------
# the transformations ("steps"), their parameters and documented prerequisites
# ----------------------------------------------------------------------------
STEPS = {
    "root_attach": ("root_attach", {}),
    "negra_mark_heads": ("negra_mark_heads", {}),
    "mark_heads_by_rules:negra": ("mark_heads_by_rules", {"mark_heads_preset": "negra"}),
    "mark_heads_by_rules:ptb": ("mark_heads_by_rules", {"mark_heads_preset": "ptb"}),
    "boyd_split": ("boyd_split", {}),
    "raising": ("raising", {}),
    "add_topnode": ("add_topnode", {}),
    "punctuation_verylow": ("punctuation_verylow", {}),
    "punctuation_symetrify": ("punctuation_symetrify", {}),
    "punctuation_symetrify:relc": ("punctuation_symetrify", {"relc": RELC}),
    "punctuation_root": ("punctuation_root", {}),
    "binarize": ("binarize", {}),
    "binarize:bare": ("binarize", {"bare_bin_labels": True}),
    "collapse_unary_chains": ("collapse_unary_chains", {}),
    "uncollapse_unary_chains": ("uncollapse_unary_chains", {}),
}
STEP_NAMES = list(STEPS)
HEAD_MARKERS = ["negra_mark_heads", "mark_heads_by_rules:negra", "mark_heads_by_rules:ptb"]

# documented prerequisites (docstrings of trees/transform.py, DESIGN Appendix A)
#   heads       : a head marker earlier in the sequence
#   split       : boyd_split earlier in the sequence
#   root_attach : root_attach earlier in the sequence
#   heads>2     : a head marker earlier if some node has more than two children (dynamic)
PREREQ = {
    "boyd_split": ["heads"],
    "raising": ["split"],
    "punctuation_verylow": ["root_attach"],
    "punctuation_symetrify": ["root_attach"],
    "punctuation_symetrify:relc": ["root_attach"],
    "binarize": ["heads>2"],
    "binarize:bare": ["heads>2"],
}


def func_name(step):
    return STEPS[step][0]


def static_ok(seq):
    """literal prerequisites that do not depend on the tree"""
    for i, st in enumerate(seq):
        before = seq[:i]
        for p in PREREQ.get(st, []):
            if p == "heads" and not any(b in HEAD_MARKERS for b in before):
                return False
            if p == "split" and "boyd_split" not in before:
                return False
            if p == "root_attach" and "root_attach" not in before:
                return False
    return True


def dynamic_ok(step, before, pre):
    """prerequisites that depend on the tree the step is applied to (`pre` = its spec)"""
    if not static_ok(list(before) + [step]):
        return False
    if is_leaf(pre):
        # a one-token sentence collapsed into a single node: only uncollapsing is defined on it
        return step == "uncollapse_unary_chains"
    for p in PREREQ.get(step, []):
        if p == "heads>2" and max_arity(pre) > 2 and not any(b in HEAD_MARKERS for b in before):
            return False
    nonroot = [t for t, par in all_specs(pre) if par is not None]
    if step == "boyd_split" and any(xget(t, "head") is None for t in nonroot):
        return False
    if step == "raising" and any(xget(t, "split") is None or xget(t, "head_block") is None
                                 for t in nonroot):
        return False
    return True


def sequences(max_len, steps=None):
    steps = steps or STEP_NAMES
    for k in range(1, max_len + 1):
        for seq in itertools.product(steps, repeat=k):
            if static_ok(seq):
                yield list(seq)


def apply_step(ctx, step, tree):
    fn, params = STEPS[step]
    return getattr(ctx.mod("transform"), fn)(tree, **params)


# ----------------------------------------------------------------------------
# per-step contract of C04 (judged on the real pre-state `pre` and the result)
# ----------------------------------------------------------------------------
def _bag_labels(bag):
    return sorted(l for _, l in bag)


def expected_tokens(step, pre):
    if step == "collapse_unary_chains":
        return tokens(ref_collapse(pre))
    if step == "uncollapse_unary_chains":
        return tokens(ref_uncollapse(pre))
    return tokens(pre)


def split_origin_ok(spec):
    """`spec` (a head-marked tree about to be split) lets the outcome of boyd_split + raising be
    stated per constituent: every constituent has exactly one head child (the documented
    prerequisite "head marking") and carries a key that no other node carries"""
    uids = [xget(c, "uid") for c in constituents(spec)]
    return head_children_ok(spec) and None not in uids and len(set(uids)) == len(uids)


def check_step(step, pre, res, kids_before=None, origin=None):
    """C04 contract of one transformation: `pre` spec of the tree it was applied
    to, `res` the returned node.  None or (expected, observed).
    `origin`: for raising directly after boyd_split, the spec of the tree boyd_split was applied to."""
    if res is None:
        return ("returns the root of a well-formed tree", "returned None")
    n = len(tokens(pre))
    if getattr(res, "parent", None) is not None:
        # an inner node came back: say whether the tree it belongs to is otherwise as documented
        top, hops = res, 0
        while top.parent is not None and hops < 1000:
            top, hops = top.parent, hops + 1
        rest = check_step(step, pre, top, kids_before) if top.parent is None else ("a tree", "parent cycle")
        return ("returns the ROOT of the tree", {"returned_inner_node": res.data.get("label"),
                                                 "root": top.data.get("label"),
                                                 "tree_below_the_real_root_ok": rest is None})
    errs = tg.wf_errors(res, expect_n=n)
    if errs:
        return ("returns the root of a well-formed tree with %d tokens" % n,
                {"wf_errors": errs[:4], "emptied_had_children": emptied_info(kids_before, res)})
    post = real_spec(res)
    exp_t = expected_tokens(step, pre)
    got_t = tokens(post)
    if exp_t != got_t:
        return ({"tokens": exp_t}, {"tokens": got_t})
    pre_bag, post_bag = label_bag(pre), label_bag(post)
    fn = func_name(step)
    if fn == "add_topnode":
        exp = sorted(pre_bag + [(None, "TOP")], key=lambda p: (str(p[0]), str(p[1])))
        if post_bag != exp or post["l"] != "TOP" or len(post["c"]) != 1 \
                or canon(post["c"][0]) != canon(pre):
            return ("one new TOP node above the unchanged tree", show(post))
    elif fn == "boyd_split":
        exp = []
        for c in constituents(pre):
            exp.extend([(xget(c, "uid"), c["l"])] * len(tg.runs_of_set(tokset(c))))
        exp.sort(key=lambda p: (str(p[0]), str(p[1])))
        if post_bag != exp:
            return ({"constituents (one per token block)": _bag_labels(exp)},
                    {"constituents": _bag_labels(post_bag)})
        if split_origin_ok(pre):
            # "... of which raising removes all but THE head block": of the k > 1 block nodes that
            # stand for one constituent exactly one is marked head block (raising keeps marked ones)
            for c in constituents(pre):
                k = len(tg.runs_of_set(tokset(c)))
                if k < 2:
                    continue
                pieces = [p for p in constituents(post) if xget(p, "uid") == xget(c, "uid")]
                heads = [sorted(tokset(p)) for p in pieces if xget(p, "head_block")]
                if len(heads) != 1:
                    return ({"head blocks of %s %s" % (c["l"], tg.runs_of_set(tokset(c))): "exactly one"},
                            {"head blocks": heads, "tree": show(post)})
    elif fn == "raising":
        exp = [(xget(c, "uid"), c["l"]) for c in constituents(pre)
               if c is pre or not (xget(c, "split") and not xget(c, "head_block"))]
        exp.sort(key=lambda p: (str(p[0]), str(p[1])))
        if post_bag != exp:
            return ({"constituents (all but the non-head blocks)": _bag_labels(exp)},
                    {"constituents": _bag_labels(post_bag)})
        if origin is not None and split_origin_ok(origin):
            # boyd_split made one node per block, raising removed all but the head block:
            # every constituent of the tree that was split is there exactly once again
            if post_bag != label_bag(origin):
                return ({"constituents after boyd_split + raising (those before the split)":
                         _bag_labels(label_bag(origin))},
                        {"constituents": _bag_labels(post_bag), "tree": show(post)})
    elif fn == "binarize":
        key = lambda p: (str(p[0]), str(p[1]))
        keyed_pre = sorted([p for p in pre_bag if p[0] is not None], key=key)
        keyed_post = sorted([p for p in post_bag if p[0] is not None], key=key)
        # nodes without a key (TOP, @-nodes of an earlier binarization) are compared by label
        extra = sorted(l for u, l in post_bag if u is None)
        lost = []
        for l in sorted(l for u, l in pre_bag if u is None):
            if l in extra:
                extra.remove(l)
            else:
                lost.append(l)
        if keyed_pre != keyed_post or lost or any(not l.startswith("@") for l in extra):
            return ({"constituents": _bag_labels(pre_bag), "added": "only @-nodes"},
                    {"constituents": _bag_labels(post_bag), "added": extra, "lost": lost})
    elif fn == "collapse_unary_chains":
        if canon_structure(post) != canon_structure(ref_collapse(pre)):
            return ({"tree": show(ref_collapse(pre))}, {"tree": show(post)})
    elif fn == "uncollapse_unary_chains":
        if canon_structure(post) != canon_structure(ref_uncollapse(pre)):
            return ({"tree": show(ref_uncollapse(pre))}, {"tree": show(post)})
    else:
        if post_bag != pre_bag:
            return ({"constituents": _bag_labels(pre_bag)}, {"constituents": _bag_labels(post_bag)})
    return None


def child_counts(root):
    """python id -> number of children, taken from the real tree BEFORE a step (input state)"""
    return {id(n): len(n.children) for n in tg.all_nodes(root)}


def emptied_info(kids_before, root):
    """for every childless constituent below `root`: how many children it had before the step
    (None for a node that did not exist then)"""
    out = []
    for n in tg.all_nodes(root):
        if not n.children and ("num" not in n.data or n.data.get("word") is None):
            out.append((kids_before or {}).get(id(n)))
    return out


def top_of(node):
    hops = 0
    while node.parent is not None and hops < 1000:
        node, hops = node.parent, hops + 1
    return node


def describe_wreck(root):
    """what is left of a tree after the transformation raised: wf errors of the
    tree the original root object now heads"""
    try:
        top = root
        seen = 0
        while top.parent is not None and seen < 1000:
            top = top.parent
            seen += 1
        return tg.wf_errors(top)[:4]
    except Exception as e:      # pragma: no cover
        return ["wf check failed: %r" % (e,)]


# ----------------------------------------------------------------------------
# decorations for the punctuation / structure oriented domains
# ----------------------------------------------------------------------------
WORDS_PLAIN = ["der", "Hund", "bellt", "laut", "Haus", "sieht"]
WORDS_PUNCT = [",", ".", "\"", "(", ")", "''", "``", "-", ":", "?", "[", "]", "'", "..."]
WORDS_PAIR = ["\"", "(", ")", "''", "``", "[", "]", "'"]
POS_PLAIN = ["NN", "VVFIN", "ART", "PRELS", "ADV", "VB", "IN"]
LABELS = ["S", "VP", "NP", "PP"]
EDGES = ["HD", "NK", "--", "OA"]


def decorate(shape, rng, mode="mix", punct_p=0.5, unary_p=0.25, shuffle=True, root_chain=0,
             pair_p=0.5):
    """spec for a shape.  mode: 'plain' (no punctuation), 'mix' (each token is
    punctuation with punct_p), 'allpunct' (punctuation-only sentence).
    root_chain: number of unary constituents inserted directly below the root."""
    def word_pos():
        if mode == "allpunct" or (mode == "mix" and rng.random() < punct_p):
            w = rng.choice(WORDS_PAIR) if rng.random() < pair_p else rng.choice(WORDS_PUNCT)
            return w, rng.choice(["$,", "$(", "$."])
        return rng.choice(WORDS_PLAIN), rng.choice(POS_PLAIN)

    def wrap(sp):
        k = 0
        while k < 2 and rng.random() < unary_p:
            sp = tg.node_spec(rng.choice(LABELS), [sp], rng.choice(EDGES))
            k += 1
        return sp

    def build(sh):
        if isinstance(sh, int):
            w, p = word_pos()
            return wrap(tg.leaf_spec(sh, w, p, rng.choice(EDGES)))
        kids = [build(c) for c in sh]
        if shuffle:
            rng.shuffle(kids)
        return wrap(tg.node_spec(rng.choice(LABELS), kids, rng.choice(EDGES)))

    if isinstance(shape, int):
        kids = [build(shape)]
    else:
        kids = [build(c) for c in shape]
        if shuffle:
            rng.shuffle(kids)
    for _ in range(root_chain):
        kids = [tg.node_spec(rng.choice(LABELS), kids, rng.choice(EDGES))]
    top = tg.node_spec("VROOT", kids)
    top["sid"] = 1
    return top


def _tok(n, w, pos=None):
    return tg.leaf_spec(n, w, pos or ("$(" if w in PUNCT else "NN"))


def handmade():
    """consecutive punctuation, punctuation-only constituents, unary nodes over punctuation,
    pairs across constituent corners, relative pronouns"""
    N, T = tg.node_spec, _tok
    out = [
        N("VROOT", [N("S", [T(1, "a"), N("NP", [T(2, ","), T(3, ".")]), T(4, "b")])]),
        N("VROOT", [N("S", [T(1, "a"), N("NP", [T(2, ",")]), T(3, "b")]), T(4, ".")]),
        N("VROOT", [N("S", [T(1, "\""), N("NP", [T(2, "a"), T(3, "b")]), T(4, "\"")])]),
        N("VROOT", [T(1, "\""), N("S", [N("NP", [T(2, "a"), T(3, "\"")]), T(4, "b")])]),
        N("VROOT", [N("S", [N("NP", [T(1, "("), T(2, "a")]), N("VP", [T(3, ")")]), T(4, "b")])]),
        N("VROOT", [N("S", [N("NP", [T(1, "a")]), N("PP", [T(2, "(")]), N("VP", [T(3, ")"), T(4, "b")])])]),
        N("VROOT", [N("S", [T(1, "a"), T(2, ","), T(3, ","), T(4, ","), T(5, "b")])]),
        N("VROOT", [N("S", [N("NP", [T(1, "a"), T(2, ",")]), N("VP", [T(3, "der", "PRELS"), T(4, "b")])])]),
        N("VROOT", [N("S", [N("NP", [T(1, "a"), T(2, "\"")]), N("VP", [T(3, "der", "PRELS"), T(4, "b")]), T(5, "\"")])]),
        N("VROOT", [T(1, ","), T(2, ".")]),
        N("VROOT", [N("S", [T(1, "("), T(2, ")")])]),
        N("VROOT", [N("S", [N("NP", [N("NP", [T(1, ",")])]), T(2, "a")]), T(3, ".")]),
        N("VROOT", [N("S", [T(1, ","), T(2, "a")])]),
        N("VROOT", [T(1, ".")]),
        N("VROOT", [N("S", [T(1, "a"), N("VP", [T(2, "``"), T(4, "''")]), T(3, "b")])]),
        N("VROOT", [N("S", [N("NP", [T(1, "("), T(2, "a")]), N("VP", [T(3, ")")])])]),
        N("VROOT", [N("S", [N("NP", [T(1, "(")]), N("VP", [T(2, "a"), T(3, ")")])])]),
        N("VROOT", [N("S", [N("NP", [T(1, "(")]), N("VP", [T(2, "a"), T(3, ")")]), T(4, "\"")])]),
        N("VROOT", [N("S", [T(1, "a"), N("NP", [T(2, ","), T(3, ".")])])]),
    ]
    for s in out:
        s["sid"] = 1
    out.sort(key=lambda s: len(tokens(s)))
    return out
