"""Shared helpers of the grammar oracles C06..C09.  Pure stdlib; nothing in
here imports or calls the code under test.

Data format of the code under test (from the docstrings / tests of /repo):

  grammar : {func: {lin: {vert: count}}}
  func    : (lhs, rhs_1, ..., rhs_r)                labels (str)
  lin     : (arg_1, ..., arg_k)                      one argument per block of the LHS
  arg     : ((rhs_index, arg_pos), ...)              rhs_index 0-based, arg_pos = which
                                                     argument (block) of that RHS element
  vert    : tuple of "label+fanout" strings, node first, up to the root
            (binarize writes the single key 'VERT' instead)
  lexicon : {word: Counter({tag: count})}

Contents
  1. set-based reference model of extraction (from tree *specs*, see vlib.tg)
  2. instantiate(lin, child_blocks): the "apply the rule to the tree" oracle
  3. enumerator of canonical LCFRS linearizations
  4. compose / chain search / un-binarize
  5. independent decoders of the PMCFG, RCG and LoPar file formats
  6. small utilities (JSON conversion, temp dir, printing)
"""
import contextlib
import itertools
import re
import shutil
import tempfile

from vlib import tg

BIN_PREFIX = "@"          # binarization symbols start with '@' (grammarconst.DEFAULT_BINLABEL)
VERT = "VERT"             # the single "vertical context" key binarize writes


class LinError(Exception):
    """a linearization cannot be applied / composed"""


class DecodeError(Exception):
    """a grammar file does not follow its format"""


# ----------------------------------------------------------------------------
# 1. reference model of extraction, computed from specs (token sets only)
# ----------------------------------------------------------------------------

def spec_tokens(spec):
    return sorted(l["n"] for l in tg.spec_leaves(spec))


def ref_nodes(spec):
    """one record per constituent node of the spec, in preorder:
       label, tokens, blocks (maximal runs), children = [(label, blocks)] ordered
       by leftmost token, path = [(label, n_blocks)] node first up to the root"""
    out = []

    def rec(s, path_above):
        if tg.is_leaf_spec(s):
            return
        toks = spec_tokens(s)
        blocks = tg.runs_of_set(toks)
        here = [(s["l"], len(blocks))] + path_above
        kids = sorted(s["c"], key=lambda c: min(spec_tokens(c)))
        out.append({"label": s["l"], "tokens": toks, "blocks": blocks,
                    "children": [(c["l"], tg.runs_of_set(spec_tokens(c))) for c in kids],
                    "path": here, "is_root": not path_above})
        for c in kids:
            rec(c, here)
    rec(spec, [])
    return out


def ref_tokens(spec):
    return [(l["n"], l["w"], l["l"]) for l in tg.spec_leaves(spec)]


def node_func(node):
    return (node["label"],) + tuple(l for l, _ in node["children"])


def node_vert(node):
    return tuple("%s%d" % (l, f) for l, f in node["path"])


def ref_lin(node):
    """the linearization of a node, by definition: list every block of every
    child, order the blocks by position in the sentence, and group them by the
    block of the node they fall into"""
    items = []
    for i, (_, blocks) in enumerate(node["children"]):
        for k, b in enumerate(blocks):
            items.append((b[0], b[-1], i, k))
    items.sort()
    lin = []
    for nb in node["blocks"]:
        arg = tuple((i, k) for (lo, hi, i, k) in items if nb[0] <= lo and hi <= nb[-1])
        lin.append(arg)
    return tuple(lin)


def ref_extract(specs):
    """(grammar, lexicon) as plain dicts, from the specs alone"""
    g, lex = {}, {}
    for spec in specs:
        for node in ref_nodes(spec):
            d = g.setdefault(node_func(node), {}).setdefault(ref_lin(node), {})
            v = node_vert(node)
            d[v] = d.get(v, 0) + 1
        for _, w, p in ref_tokens(spec):
            d = lex.setdefault(w, {})
            d[p] = d.get(p, 0) + 1
    return g, lex


def spec_is_continuous(spec):
    return all(len(n["blocks"]) == 1 for n in ref_nodes(spec))


# ----------------------------------------------------------------------------
# 2. instantiate
# ----------------------------------------------------------------------------

def check_lin_shape(lin):
    """type/shape of a linearization in the data format of the code"""
    if not isinstance(lin, tuple) or len(lin) == 0:
        raise LinError("linearization is not a non-empty tuple: %r" % (lin,))
    for arg in lin:
        if not isinstance(arg, tuple) or len(arg) == 0:
            raise LinError("argument is not a non-empty tuple: %r" % (arg,))
        for el in arg:
            if not (isinstance(el, tuple) and len(el) == 2
                    and all(isinstance(x, int) and not isinstance(x, bool) and x >= 0 for x in el)):
                raise LinError("element is not a pair of naturals: %r" % (el,))


def instantiate(lin, child_blocks):
    """Apply a linearization to the token blocks of the children.
    child_blocks[i] = list of blocks (lists of token numbers) of RHS element i.
    Returns the list of token lists, one per LHS argument.  Raises LinError if
    an element refers to a block that does not exist, a block is used twice or
    not at all, or the blocks of one child are not used in order."""
    check_lin_shape(lin)
    used = {}
    nxt = [0] * len(child_blocks)
    res = []
    for arg in lin:
        toks = []
        for (i, k) in arg:
            if i >= len(child_blocks) or k >= len(child_blocks[i]):
                raise LinError("element (%d,%d) refers to a block that does not exist" % (i, k))
            if (i, k) in used:
                raise LinError("block (%d,%d) used twice" % (i, k))
            if k != nxt[i]:
                raise LinError("blocks of RHS element %d not used in order (%d before %d)" % (i, k, nxt[i]))
            nxt[i] += 1
            used[(i, k)] = True
            toks.extend(child_blocks[i][k])
        res.append(toks)
    for i, bl in enumerate(child_blocks):
        if nxt[i] != len(bl):
            raise LinError("RHS element %d: %d of %d blocks used" % (i, nxt[i], len(bl)))
    return res


def reproduces(lin, node):
    """None if instantiating lin with the children's blocks gives exactly the
    node's blocks, else a reason (str)"""
    try:
        got = instantiate(lin, [b for _, b in node["children"]])
    except LinError as e:
        return str(e)
    if got != node["blocks"]:
        return "instantiation gives %s" % (got,)
    return None


# ----------------------------------------------------------------------------
# 3. canonical LCFRS rules
# ----------------------------------------------------------------------------

def _rgs(n, maxk):
    """restricted growth strings of length n with at most maxk letters"""
    def rec(prefix, mx):
        if len(prefix) == n:
            yield tuple(prefix)
            return
        for a in range(0, min(mx + 1, maxk - 1) + 1):
            prefix.append(a)
            for r in rec(prefix, max(mx, a)):
                yield r
            prefix.pop()
    if n == 0:
        return
    for r in rec([0], 0):
        yield r


def lin_from_word(word, cuts):
    """word: RHS index per variable, left to right; cuts: set of positions i
    meaning 'a new LHS argument starts after variable i'"""
    cnt = {}
    lin, arg = [], []
    for p, a in enumerate(word):
        arg.append((a, cnt.get(a, 0)))
        cnt[a] = cnt.get(a, 0) + 1
        if p in cuts:
            lin.append(tuple(arg))
            arg = []
    lin.append(tuple(arg))
    return tuple(lin)


def enum_lins(max_rank, max_vars, min_rank=1):
    """every ordered, non-deleting, non-erasing linearization in canonical
    form: RHS elements numbered by first occurrence, no two adjacent variables
    of the same element inside one argument, the variables of each element
    numbered 0,1,2.. left to right; rank <= max_rank, <= max_vars variables.
    Deterministic order (by number of variables)."""
    for n in range(1, max_vars + 1):
        for w in _rgs(n, max_rank):
            if max(w) + 1 < min_rank:
                continue
            forced = [i for i in range(n - 1) if w[i] == w[i + 1]]
            free = [i for i in range(n - 1) if w[i] != w[i + 1]]
            for m in range(len(free) + 1):
                for sub in itertools.combinations(free, m):
                    yield lin_from_word(w, set(forced) | set(sub))


def lin_rank(lin):
    return max(i for arg in lin for (i, _) in arg) + 1


def lin_fanouts(lin):
    """[fan-out of the LHS, fan-out of RHS element 0, 1, ...] by definition"""
    r = lin_rank(lin)
    res = [len(lin)] + [0] * r
    for arg in lin:
        for (i, _) in arg:
            res[i + 1] += 1
    return res


def well_numbered(lin):
    """for each RHS element the second components are 0,1,2.. in order, and
    the first components are 0..r-1 without holes"""
    nxt = {}
    for arg in lin:
        for (i, k) in arg:
            if nxt.get(i, 0) != k:
                return False
            nxt[i] = k + 1
    return sorted(nxt) == list(range(len(nxt)))


def is_canonical(lin):
    first = []
    for arg in lin:
        prev = None
        for (i, _) in arg:
            if prev == i:
                return False
            prev = i
            if i not in first:
                first.append(i)
    return well_numbered(lin) and first == list(range(len(first)))


def canon_rule(func, lin):
    """reorder the RHS by first occurrence in the linearization (the unique
    representative of a rule modulo RHS permutation)"""
    order = []
    for arg in lin:
        for (i, _) in arg:
            if i not in order:
                order.append(i)
    if sorted(order) != list(range(len(func) - 1)):
        raise LinError("linearization does not mention every RHS element exactly: %r %r" % (func, lin))
    ren = {old: new for new, old in enumerate(order)}
    nfunc = (func[0],) + tuple(func[1 + old] for old in order)
    nlin = tuple(tuple((ren[i], k) for (i, k) in arg) for arg in lin)
    return nfunc, nlin


def is_bin(label):
    return isinstance(label, str) and label.startswith(BIN_PREFIX)


# ----------------------------------------------------------------------------
# 4. compose, chain search, un-binarize
# ----------------------------------------------------------------------------

def compose_step(func, lin, sub_func, sub_lin):
    """Inline the rule (sub_func, sub_lin) for the *last* RHS element X of
    (func, lin).  Checks that the fan-out with which X is used (number of
    references to it) equals the fan-out with which the sub-rule defines it,
    replaces each reference (base, k) by the k-th argument of the sub-rule
    with its indices shifted by base, and splices its RHS in."""
    base = len(func) - 2
    if sub_func[0] != func[-1]:
        raise LinError("sub-rule rewrites %r, expected %r" % (sub_func[0], func[-1]))
    uses = sum(1 for arg in lin for (i, _) in arg if i == base)
    if uses != len(sub_lin):
        raise LinError("fan-out mismatch for %s: used with %d, defined with %d" % (func[-1], uses, len(sub_lin)))
    out = []
    for arg in lin:
        narg = []
        for (i, k) in arg:
            if i == base:
                if k >= len(sub_lin):
                    raise LinError("reference (%d,%d) beyond the sub-rule's arguments" % (i, k))
                narg.extend((base + j, m) for (j, m) in sub_lin[k])
            else:
                narg.append((i, k))
        out.append(tuple(narg))
    return func[:-1] + tuple(sub_func[1:]), tuple(out)


def index_by_lhs(bgram):
    idx = {}
    for f in bgram:
        for l in bgram[f]:
            idx.setdefault(f[0], []).append((f, l))
    return idx


def compose_unique(bgram, func, lin, idx=None):
    """DESIGN 5/C07 `compose`: starting from (func, lin), while the last RHS
    element is a binarization symbol take the *unique* rule rewriting it and
    inline it.  Returns (func, lin, chain_length)."""
    idx = idx if idx is not None else index_by_lhs(bgram)
    n = 1
    while is_bin(func[-1]):
        cands = idx.get(func[-1], [])
        if len(cands) != 1:
            raise LinError("binarization symbol %s is rewritten by %d rules" % (func[-1], len(cands)))
        func, lin = compose_step(func, lin, cands[0][0], cands[0][1])
        n += 1
        if n > 64:
            raise LinError("binarization chain does not terminate")
    if any(is_bin(x) for x in func[1:]):
        raise LinError("binarization symbol not in last position: %r" % (func,))
    return func, lin, n


def project(lin, perm):
    """The rule as it looks after only the first len(perm) steps of a chain
    have been inlined: the RHS elements perm[0], perm[1], .. keep their
    identity (renumbered 0, 1, ..), all other elements are still one symbol
    (index len(perm)) whose adjacent occurrences inside an argument are one
    variable."""
    m = {e: j for j, e in enumerate(perm)}
    rest = len(perm)
    out, cnt = [], {}
    for arg in lin:
        narg = []
        for (i, _) in arg:
            j = m.get(i, rest)
            if j == rest and narg and narg[-1][0] == rest:
                continue
            narg.append((j, cnt.get(j, 0)))
            cnt[j] = cnt.get(j, 0) + 1
        out.append(tuple(narg))
    return tuple(out)


def find_chain(bgram, func, lin, exact, idx=None):
    """Is there a chain of rules of bgram, starting at a rule rewriting
    func[0], whose composition (compose_step, i.e. with the intermediate
    symbol used with the fan-out its rule defines) is the rule (func, lin) --
    literally (`exact`) or up to a permutation of the RHS?  Returns the chain
    (list of (func, lin)) or None.  The search is pruned by comparing every
    partial composition with the corresponding projection of the target."""
    idx = idx if idx is not None else index_by_lhs(bgram)
    r = len(func) - 1
    if r <= 2:
        for (tf, tl) in idx.get(func[0], []):
            if any(is_bin(x) for x in tf[1:]):
                continue
            try:
                if ((tf, tl) == (func, lin)) if exact else (canon_rule(tf, tl) == canon_rule(func, lin)):
                    return [(tf, tl)]
            except LinError:
                continue
        return None

    def candidates(perm, label):
        if exact:
            e = len(perm)
            return [e] if func[1 + e] == label else []
        return [e for e in range(r) if e not in perm and func[1 + e] == label]

    def rec(cfunc, clin, perm, chain):
        last = len(perm) == r - 2
        for (sf, sl) in idx.get(cfunc[-1], []):
            if len(sf) != 3 or is_bin(sf[1]) or is_bin(sf[2]) != (not last):
                continue
            try:
                nf, nl = compose_step(cfunc, clin, sf, sl)
            except LinError:
                continue
            for e in candidates(perm, sf[1]):
                if last:
                    for e2 in candidates(perm + [e], sf[2]):
                        if nl == project(lin, perm + [e, e2]):
                            return chain + [(sf, sl)]
                elif nl == project(lin, perm + [e]):
                    res = rec(nf, nl, perm + [e], chain + [(sf, sl)])
                    if res is not None:
                        return res
        return None

    for (tf, tl) in idx.get(func[0], []):
        if len(tf) != 3 or is_bin(tf[1]) or not is_bin(tf[2]):
            continue
        for e in candidates([], tf[1]):
            if tl == project(lin, [e]):
                res = rec(tf, tl, [e], [(tf, tl)])
                if res is not None:
                    return res
    return None


def find_chain_any(bgram, func, lin, exact, idx=None):
    """find_chain, and if the pruned search finds nothing, an unpruned search
    (a chain whose partial compositions are not in merged form is still a
    chain in the sense of the property)"""
    idx = idx if idx is not None else index_by_lhs(bgram)
    res = find_chain(bgram, func, lin, exact, idx)
    if res is not None:
        return res
    target = (func, lin) if exact else canon_rule(func, lin)
    want = sorted(func[1:])
    r = len(func) - 1

    def fits(cfunc):
        body = [x for x in cfunc[1:] if not is_bin(x)]
        if len(cfunc) - 1 > r:
            return False
        if exact:
            return list(func[1:1 + len(body)]) == body
        w = list(want)
        for b in body:
            if b in w:
                w.remove(b)
            else:
                return False
        return True

    budget = [20000]

    def rec(cfunc, clin, chain, depth):
        if not is_bin(cfunc[-1]):
            if any(is_bin(x) for x in cfunc[1:]):
                return None
            try:
                got = (cfunc, clin) if exact else canon_rule(cfunc, clin)
            except LinError:
                return None
            return chain if got == target else None
        if depth > r:
            return None
        for (sf, sl) in idx.get(cfunc[-1], []):
            budget[0] -= 1
            if budget[0] < 0:
                return None
            try:
                nf, nl = compose_step(cfunc, clin, sf, sl)
            except LinError:
                continue
            if not fits(nf):
                continue
            res = rec(nf, nl, chain + [(sf, sl)], depth + 1)
            if res is not None:
                return res
        return None

    for (tf, tl) in idx.get(func[0], []):
        if any(is_bin(x) for x in tf[1:-1]) or not fits(tf):
            continue
        res = rec(tf, tl, [(tf, tl)], 1)
        if res is not None:
            return res
    return None


def unbinarize(bgram):
    """inline every binarization symbol: {(func, lin): count of the top rule}.
    Requires unique binarization symbols (deterministic binarization)."""
    idx = index_by_lhs(bgram)
    out = {}
    for f in bgram:
        if is_bin(f[0]):
            continue
        for l in bgram[f]:
            cf, cl, _ = compose_unique(bgram, f, l, idx)
            key = (cf, cl)
            if key in out:
                raise LinError("two rules un-binarize to the same rule %s" % rule_str(cf, cl))
            out[key] = sum(bgram[f][l].values())
    return out


# ----------------------------------------------------------------------------
# 5. file format decoders (written from the formats, not from the writers)
# ----------------------------------------------------------------------------
#
# PMCFG (.pmcfg)   " funN : LHS <- RHS1 RHS2 ..."     abstract rule
#                  " funN = sA sB ..."                one sequence id per LHS argument
#                  " funN COUNT"
#                  " sK -> i:j i:j ..."               sequence definition, shared between functions
# lexicon (.lex)   "word<TAB>tag count tag count ..."
# RCG (.rcg)       "C:COUNT LHSk([0][1],[2]) --> RHS1m([0],[2]) RHS2n([1])"
#                  predicate name = label followed by its arity (number of arguments)
# LoPar            .gram "COUNT LHS RHS1 RHS2 ..."   .lex as above
#                  .start "SYMBOL COUNT"   .oc / .OC "TAG COUNT"

def _lines(text):
    return [l for l in text.split("\n") if l.strip(" \t\r") != ""]


def decode_pmcfg(text):
    funs, seqs, order = {}, {}, []
    for line in _lines(text):
        tok = line.split()
        head = tok[0]
        if re.fullmatch(r"fun\d+", head) and len(tok) >= 2:
            rec = funs.setdefault(head, {})
            if head not in order:
                order.append(head)
            if tok[1] == ":":
                if len(tok) < 5 or tok[3] != "<-" or "rule" in rec:
                    raise DecodeError("bad or repeated rule line: %r" % line)
                rec["rule"] = tuple([tok[2]] + tok[4:])
            elif tok[1] == "=":
                if len(tok) < 3 or "seqs" in rec:
                    raise DecodeError("bad or repeated linearization line: %r" % line)
                rec["seqs"] = tok[2:]
            elif len(tok) == 2 and re.fullmatch(r"\d+", tok[1]):
                if "count" in rec:
                    raise DecodeError("repeated count line: %r" % line)
                rec["count"] = int(tok[1])
            else:
                raise DecodeError("unknown function line: %r" % line)
        elif re.fullmatch(r"s\d+", head) and len(tok) >= 3 and tok[1] == "->":
            if head in seqs:
                raise DecodeError("sequence %s defined twice" % head)
            els = []
            for t in tok[2:]:
                m = re.fullmatch(r"(\d+):(\d+)", t)
                if not m:
                    raise DecodeError("bad sequence element %r in %r" % (t, line))
                els.append((int(m.group(1)), int(m.group(2))))
            seqs[head] = tuple(els)
        else:
            raise DecodeError("unknown line: %r" % line)
    rules = {}
    for fid in order:
        rec = funs[fid]
        if set(rec) != {"rule", "seqs", "count"}:
            raise DecodeError("%s incomplete: has %s" % (fid, sorted(rec)))
        for s in rec["seqs"]:
            if s not in seqs:
                raise DecodeError("%s uses undefined sequence %s" % (fid, s))
        key = (rec["rule"], tuple(seqs[s] for s in rec["seqs"]))
        if key in rules:
            raise DecodeError("rule written twice: %s" % rule_str(*key))
        rules[key] = rec["count"]
    return rules


def decode_lex(text):
    lex = {}
    for line in _lines(text):
        if "\t" not in line:
            raise DecodeError("lexicon line without TAB: %r" % line)
        word, rest = line.split("\t", 1)
        parts = rest.split(" ")
        if len(parts) % 2 != 0 or word == "":
            raise DecodeError("bad lexicon line: %r" % line)
        if word in lex:
            raise DecodeError("word listed twice: %r" % word)
        lex[word] = {}
        for tag, cnt in zip(parts[0::2], parts[1::2]):
            if not re.fullmatch(r"\d+", cnt) or tag in lex[word]:
                raise DecodeError("bad lexicon line: %r" % line)
            lex[word][tag] = int(cnt)
    return lex


_PRED = re.compile(r"(.*?)\(((?:\[\d+\])+(?:,(?:\[\d+\])+)*)\)")


def _pred(text):
    m = _PRED.fullmatch(text)
    if not m:
        raise DecodeError("bad predicate %r" % text)
    args = [[int(v) for v in re.findall(r"\[(\d+)\]", a)] for a in m.group(2).split(",")]
    name = m.group(1)
    suffix = str(len(args))
    if not name.endswith(suffix) or len(name) == len(suffix):
        raise DecodeError("predicate %r: name does not end in its arity %s" % (text, suffix))
    return name[:-len(suffix)], args


def decode_rcg(text):
    rules = {}
    for line in _lines(text):
        tok = line.split(" ")
        m = re.fullmatch(r"C:(\d+)", tok[0])
        if not m or len(tok) < 4 or tok[2] != "-->":
            raise DecodeError("bad clause: %r" % line)
        lhs, lhs_args = _pred(tok[1])
        func = [lhs]
        where = {}
        for i, p in enumerate(tok[3:]):
            label, args = _pred(p)
            func.append(label)
            for k, a in enumerate(args):
                if len(a) != 1 or a[0] in where:
                    raise DecodeError("RHS argument is not one fresh variable: %r" % line)
                where[a[0]] = (i, k)
        seen = set()
        lin = []
        for a in lhs_args:
            arg = []
            for v in a:
                if v not in where or v in seen:
                    raise DecodeError("LHS variable %d unbound or repeated: %r" % (v, line))
                seen.add(v)
                arg.append(where[v])
            lin.append(tuple(arg))
        if len(seen) != len(where):
            raise DecodeError("RHS variable not used on the LHS: %r" % line)
        key = (tuple(func), tuple(lin))
        if key in rules:
            raise DecodeError("clause written twice: %r" % line)
        rules[key] = int(m.group(1))
    return rules


def decode_lopar_gram(text):
    """{func: count}; the linearization of a context-free rule is implied"""
    rules = {}
    for line in _lines(text):
        tok = line.split(" ")
        if len(tok) < 3 or not re.fullmatch(r"\d+", tok[0]):
            raise DecodeError("bad LoPar rule: %r" % line)
        func = tuple(tok[1:])
        # a PCFG count file has no rule identity beyond the text of the rule: equal lines add up
        rules[func] = rules.get(func, 0) + int(tok[0])
    return rules


def decode_pairs(text):
    """'SYMBOL COUNT' lines (.start, .oc, .OC)"""
    res = {}
    for line in _lines(text):
        tok = line.split(" ")
        if len(tok) != 2 or not re.fullmatch(r"\d+", tok[1]) or tok[0] in res:
            raise DecodeError("bad line: %r" % line)
        res[tok[0]] = int(tok[1])
    return res


def cf_lin(rank):
    """the only canonical linearization of a context-free rule of this rank"""
    return (tuple((i, 0) for i in range(rank)),)


def split_lexical_rules(rules):
    """Separate lexical rules from the others in a decoded grammar file that
    embeds the lexicon: a terminal (word) is a RHS symbol that no rule
    rewrites; a lexical rule is TAG -> word with the trivial linearization."""
    lhs = set(f[0] for (f, _) in rules)
    rest, lex = {}, {}
    for (f, l), c in rules.items():
        if len(f) == 2 and f[1] not in lhs:
            if l != (((0, 0),),):
                raise DecodeError("lexical rule with a non-trivial linearization: %s" % rule_str(f, l))
            d = lex.setdefault(f[1], {})
            d[f[0]] = d.get(f[0], 0) + c
        else:
            rest[(f, l)] = c
    return rest, lex


# ----------------------------------------------------------------------------
# 6. utilities
# ----------------------------------------------------------------------------

def flat(gram):
    """{(func, lin): summed count}"""
    return {(f, l): sum(gram[f][l].values()) for f in gram for l in gram[f]}


def flat3(gram):
    """{(func, lin, vert): count}"""
    return {(f, l, v): gram[f][l][v] for f in gram for l in gram[f] for v in gram[f][l]}


def plain_lex(lexicon):
    return {w: {t: c for t, c in lexicon[w].items()} for w in lexicon}


def lin_str(lin):
    return "[" + "][".join(" ".join("%d:%d" % e for e in arg) for arg in lin) + "]"


def rule_str(func, lin=None):
    s = "%s -> %s" % (func[0], " ".join(func[1:]))
    return s if lin is None else "%s %s" % (s, lin_str(lin))


def show(rules):
    """JSON-able rendering of {(func, lin[, vert]): count}"""
    out = {}
    for k, c in rules.items():
        s = rule_str(k[0], k[1])
        if len(k) > 2:
            s += " / " + (k[2] if isinstance(k[2], str) else " ".join(k[2]))
        out[s] = c
    return out


def diff(exp, got):
    """compact difference of two {key: count} dicts, JSON-able"""
    e, g = {}, {}
    for k in set(exp) | set(got):
        if exp.get(k) != got.get(k):
            if k in exp:
                e[k] = exp[k]
            if k in got:
                g[k] = got[k]
    return e, g


def lin_to_json(lin):
    return [[[i, k] for (i, k) in arg] for arg in lin]


def lin_from_json(j):
    return tuple(tuple((int(i), int(k)) for (i, k) in arg) for arg in j)


def rules_to_json(gram):
    """[[func, lin, [[vert, count], ...]], ...]"""
    out = []
    for f in gram:
        for l in gram[f]:
            out.append([list(f), lin_to_json(l),
                        [[list(v) if isinstance(v, tuple) else v, c] for v, c in gram[f][l].items()]])
    return out


def rules_from_json(j):
    g = {}
    for f, l, verts in j:
        d = g.setdefault(tuple(f), {}).setdefault(lin_from_json(l), {})
        for v, c in verts:
            d[tuple(v) if isinstance(v, list) else v] = c
    return g


@contextlib.contextmanager
def tempdir():
    d = tempfile.mkdtemp(prefix="verif_gram_")
    try:
        yield d
    finally:
        shutil.rmtree(d, ignore_errors=True)


def markov_name(m):
    if m is None:
        return "det"
    return "v%dh%d%s" % (m["v"], m["h"], "nf" if m.get("nofanout") else "")


def markov_opts(m):
    """the dict the code under test expects (key presence switches nofanout on)"""
    if m is None:
        return None
    d = {"v": m["v"], "h": m["h"]}
    if m.get("nofanout"):
        d["nofanout"] = True
    return d


def all_markov():
    return [{"v": v, "h": h, "nofanout": nf} for nf in (False, True) for v in range(4) for h in range(4)]


def covering_markov():
    """every v, every h, every (v,h) pair with v,h in {0,1} and the corner
    (3,3), each value of nofanout with each v and each h"""
    pairs = [(0, 0), (0, 1), (1, 0), (1, 1), (1, 2), (2, 1), (2, 3), (3, 2), (3, 3), (0, 3), (3, 0), (2, 2)]
    out = []
    for n, (v, h) in enumerate(pairs):
        out.append({"v": v, "h": h, "nofanout": False})
    for n, (v, h) in enumerate([(0, 0), (1, 1), (2, 2), (3, 3), (0, 2), (2, 0), (1, 3), (3, 1)]):
        out.append({"v": v, "h": h, "nofanout": True})
    return out


# ---- decorated tree specs used by C06 / C08 / C09 ---------------------------

def label_shape(shape, labels, pos, words, root="VROOT"):
    """decorate a tg shape: `labels` is consumed in preorder for the internal
    nodes below the root, pos/words cyclically per token number"""
    it = iter(labels)

    def rec(sh):
        if isinstance(sh, int):
            return tg.leaf_spec(sh, words[(sh - 1) % len(words)], pos[(sh - 1) % len(pos)])
        lab = next(it)
        return tg.node_spec(lab, [rec(c) for c in sh])
    if isinstance(shape, int):
        top = tg.node_spec(root, [rec(shape)])
    else:
        top = tg.node_spec(root, [rec(c) for c in shape])
    top["sid"] = 1
    return top


def count_internal(shape):
    """number of internal nodes strictly below the root"""
    if isinstance(shape, int):
        return 0

    def rec(sh):
        if isinstance(sh, int):
            return 0
        return 1 + sum(rec(c) for c in sh)
    return sum(rec(c) for c in shape)


def wrap_unary(spec, path, label):
    """copy of spec with a unary node `label` inserted above the node reached
    by following child indices `path` from the root (path non-empty)"""
    import copy
    s = copy.deepcopy(spec)
    node = s
    for i in path[:-1]:
        node = node["c"][i]
    node["c"][path[-1]] = tg.node_spec(label, [node["c"][path[-1]]])
    return s


def child_paths(spec):
    """paths (lists of child indices) of every non-root node"""
    out = []

    def rec(s, p):
        if tg.is_leaf_spec(s):
            return
        for i, c in enumerate(s["c"]):
            out.append(p + [i])
            rec(c, p + [i])
    rec(spec, [])
    return out


def reverse_children(spec):
    """copy with every stored child list reversed (same tree, other storage order)"""
    if tg.is_leaf_spec(spec):
        return dict(spec)
    s = dict(spec)
    s["c"] = [reverse_children(c) for c in reversed(spec["c"])]
    return s


def random_specs(rng, count, min_n, max_n, p_flat=0.35, discont=0.5, **deco):
    """like tg.random_specs, with control over flatness (rank) and discontinuity"""
    out = []
    for _ in range(count):
        n = rng.randint(min_n, max_n)
        out.append(tg.spec_from_shape(tg.random_shape(rng, n, p_flat=p_flat, discont=discont), rng, **deco))
    return out


# ---- exceptions of the code under test are violations, not checker errors ------

def judged(fn):
    """Wrap a clause: an exception that originates in the code under test (the
    innermost frames of the traceback lie below the last frame of /verif) is
    reported as a violation `("no exception", "Type: message at file:line")`;
    an exception raised by the oracle itself still propagates (checker error)."""
    import functools
    import os
    import traceback
    from bounded.common import Skip
    here = os.path.dirname(os.path.dirname(os.path.abspath(__file__))) + os.sep

    @functools.wraps(fn)
    def wrapper(ctx, w):
        try:
            return fn(ctx, w)
        except Skip:
            raise
        except Exception as e:
            frames = traceback.extract_tb(e.__traceback__)
            repo = os.path.realpath(ctx.repo) + os.sep
            last_repo = max([i for i, f in enumerate(frames)
                             if os.path.realpath(f.filename).startswith(repo)] or [-1])
            last_here = max([i for i, f in enumerate(frames)
                             if os.path.realpath(f.filename).startswith(here)] or [-1])
            if last_repo > last_here:
                f = frames[last_repo]
                return ("no exception", "%s: %s at %s:%d (%s)" % (
                    type(e).__name__, str(e)[:200], os.path.basename(f.filename), f.lineno, f.name))
            raise
    return wrapper


# ---- encoders of the RCG / lexicon formats (for inputs of the reader / CLI) ----

def encode_rcg(rules):
    """text of an .rcg file for {(func, lin): count}, written from the format
    description: variables numbered left to right in the LHS"""
    lines = []
    for (func, lin), count in rules.items():
        var = 0
        lhs_args = []
        rhs_args = {}
        for arg in lin:
            s = ""
            for (i, k) in arg:
                s += "[%d]" % var
                rhs_args.setdefault(i, {})[k] = var
                var += 1
            lhs_args.append(s)
        preds = []
        for i in range(len(func) - 1):
            a = rhs_args[i]
            preds.append("%s%d(%s)" % (func[i + 1], len(a), ",".join("[%d]" % a[k] for k in range(len(a)))))
        lines.append("C:%d %s%d(%s) --> %s" % (count, func[0], len(lin), ",".join(lhs_args), " ".join(preds)))
    return "".join(l + "\n" for l in lines)


def encode_lex(lex):
    return "".join("%s\t%s\n" % (w, " ".join("%s %d" % (t, c) for t, c in lex[w].items())) for w in lex)
