#!/usr/bin/env python3
"""Self-test of the deductive part: apply each deliberate property-breaking edit
(selftest/mutants_<prop>.json) to a scratch copy of the repository and require
that a named obligation fails (or at least is no longer discharged, for
'undecided_ok' entries); harmless edits must stay green.

usage: python3-vt selftest/run_mutants.py C16 [C17 ...] [--tests]
"""
import json
import os
import shutil
import subprocess
import sys
import tempfile

HERE = os.path.dirname(os.path.dirname(os.path.abspath(__file__)))
sys.path.insert(0, HERE)
sys.dont_write_bytecode = True


def run(prop, with_tests=False):
    from pyvc import api
    muts = json.load(open(os.path.join(HERE, "selftest", "mutants_%s.json" % prop.lower())))
    repo = os.environ.get("VERIF_REPO", "/repo")
    ok = True
    only = os.environ.get("MUTANTS")          # optional: comma-separated id prefixes
    for m in muts:
        if only and not any(m["id"].startswith(x) for x in only.split(",")):
            continue
        d = tempfile.mkdtemp(prefix="verif_mut_")
        try:
            dst = os.path.join(d, "repo")
            shutil.copytree(repo, dst, ignore=shutil.ignore_patterns(".git", "__pycache__", ".benchmarks"))
            path = os.path.join(dst, m["file"])
            src = open(path, encoding="utf-8").read()
            if src.count(m["find"]) != 1:
                print("MUTANT %s: pattern occurs %d times (stale mutant?)" % (m["id"], src.count(m["find"])))
                ok = False
                continue
            open(path, "w", encoding="utf-8").write(src.replace(m["find"], m["replace"]))
            tests = ""
            if with_tests:
                p = subprocess.run(["/venv/bin/python", "-m", "pytest", "-q", "-x", "-p", "no:cacheprovider"],
                                   cwd=dst, capture_output=True, text=True)
                tests = " tests:%s" % ("pass" if p.returncode == 0 else "FAIL")
            res = api.run_property(prop, repo=dst, tier="quick", jobs=8)
            failed = [o["name"] for o in res["obligations"] if o["status"] == "failed"]
            undec = [o["name"] for o in res["obligations"] if o["status"] == "undecided"]
            if m.get("harmless"):
                good = not failed and not undec and not res["errors"]
                verdict = "green" if good else "NOT GREEN"
            else:
                hit = [f for f in failed if m["expect"] in f]
                good = bool(hit) or (m.get("undecided_ok") and any(m["expect"] in u for u in undec))
                verdict = "caught" if hit else ("undecided" if good else "MISSED")
            ok = ok and good
            print("MUTANT %-28s %-9s failed=%s undecided=%s%s %s" % (m["id"], verdict, failed[:4], undec[:3], tests,
                                                                  res["errors"][:1]))
        finally:
            shutil.rmtree(d, ignore_errors=True)
    return ok


if __name__ == "__main__":
    props = [a for a in sys.argv[1:] if not a.startswith("--")]
    allok = True
    for p in props:
        allok = run(p, "--tests" in sys.argv) and allok
    sys.exit(0 if allok else 1)
